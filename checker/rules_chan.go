package main

// Blocking, cancellation and lifecycle rules over the channel engine:
// R0 (classification of every channel operation), R14 (the same classes on the
// non-blocking API surface), R16 (loop-cancellable / spin), R20 (close-once),
// R21 (no send after close).

import (
	"fmt"
	"go/ast"
	"go/token"
	"go/types"
	"sort"
	"strings"

	"verif/checker/internal/xcfg"
)

func init() {
	register(&Rule{ID: "R0", Title: "chan-op classification: every channel operation of the engine falls into a discharged class", Min: 90, Run: func(c *Ctx) { ruleR0(c, false) }})
	register(&Rule{ID: "R14", Title: "no-blocking-in-API: delivery, answer and token-entry functions contain no unguarded blocking operation", Min: 20, Run: func(c *Ctx) { ruleR0(c, true) }})
	register(&Rule{ID: "R16", Title: "loop-cancellable: every parking loop leaves through a done-source; no case spins on a closed channel", Min: 14, Run: ruleR16})
	register(&Rule{ID: "R20", Title: "close-once: every close executes at most once per channel", Min: 10, Run: ruleR20})
	register(&Rule{ID: "R21", Title: "no-send-after-close: channels that are both sent to and closed are never sent to after the close", Min: 3, Run: ruleR21})
}

// enginePkgs: packages whose goroutines belong to a running instance (C07
// anchors). pkg/clock (host/mock clock) and pkg/data (iterator helper) have
// their own protocols and are outside this classification.
func inEngineScope(f *FuncInfo) bool {
	switch shortPkg(f.Pkg.PkgPath) {
	case "bpmn", "pkg/tracing", "pkg/timer", "pkg/id", "pkg/event", "model":
		return true
	}
	return false
}

func (ce *ChanEngine) selectGuard(op *ChanOp) (bool, string) {
	if op.Select == nil {
		return false, ""
	}
	if op.Select.HasDefault() {
		return true, "select with default"
	}
	for _, cl := range op.Select.Clauses {
		if cl.Op == nil || cl.Op == op || cl.Op.Kind != OpRecv {
			continue
		}
		if ce.isDoneSource(op.Select.Func, cl.Op.Chan) {
			return true, "select with done-source sibling " + exprStringShort(cl.Op.Chan)
		}
	}
	return false, ""
}

func hasDoneSibling(ce *ChanEngine, op *ChanOp) bool {
	for _, cl := range op.Select.Clauses {
		if cl.Op != nil && cl.Op != op && cl.Op.Kind == OpRecv && ce.isDoneSource(op.Select.Func, cl.Op.Chan) {
			return true
		}
	}
	return false
}

func exprStringShort(e ast.Expr) string {
	s := exprString(e)
	if len(s) > 40 {
		s = s[:40]
	}
	return s
}

func isTimerChanType(t types.Type) bool {
	ch, ok := t.Underlying().(*types.Chan)
	if !ok {
		return false
	}
	return isNamed(ch.Elem(), "time", "Time")
}

// ownerStartedBefore: the mailbox post is dominated, in its own function, by
// a sync.Once.Do / CompareAndSwap-guarded `go recv.run(...)` of the same
// receiver (the owner's loop is running before the post).
func ownerStartedBefore(p *Prog, op *ChanOp) (bool, string) {
	f := op.Func
	in := info(f)
	g := p.Graph(f)
	opt, ok := g.PointOf(op.Node)
	if !ok {
		return false, ""
	}
	sel, ok := unparen(op.Chan).(*ast.SelectorExpr)
	if !ok {
		return false, ""
	}
	recvObj := objOf(in, sel.X)
	launchesOwner := func(n ast.Node) bool {
		found := false
		ast.Inspect(n, func(m ast.Node) bool {
			gs, ok := m.(*ast.GoStmt)
			if !ok {
				return true
			}
			if s, ok := unparen(gs.Call.Fun).(*ast.SelectorExpr); ok {
				if objOf(in, s.X) == recvObj && recvObj != nil {
					found = true
				}
			}
			return true
		})
		return found
	}
	// guarded by the node's existence flag: `if !recv.started.Load() { return }` earlier in the function
	if enclosingIfWhere(p, op.Node, f.Body, func(cond ast.Expr, inThen bool) bool {
		cnd := unparen(cond)
		neg := false
		if u, ok := cnd.(*ast.UnaryExpr); ok && u.Op == token.NOT {
			neg, cnd = true, unparen(u.X)
		}
		cl, ok := cnd.(*ast.CallExpr)
		if !ok {
			return false
		}
		fv, meth, _ := atomicFieldCall(in, cl)
		return fv != nil && existenceFlags(p)[fv] && meth == "Load" && neg != inThen
	}) != nil {
		return true, "posted only after the owner's loop was launched (existence flag set where the goroutine is started)"
	}
	for _, pt := range g.AllPoints() {
		n := pt.Node()
		if !g.Dominates(pt, opt) || pt == opt {
			continue
		}
		// once.Do(func(){ ... go recv.run ... })
		for _, call := range callsIn(n) {
			if isSyncMethod(in, call, "Once", "Do") && len(call.Args) == 1 && launchesOwner(call.Args[0]) {
				return true, "owner loop started by sync.Once before the post"
			}
		}
		// recv.ensureRunning(ctx): a method of the same receiver whose body starts the owner's loop
		// under sync.Once (or a CAS guard) on every path
		for _, call := range callsIn(n) {
			sel, ok := unparen(call.Fun).(*ast.SelectorExpr)
			if !ok || objOf(in, sel.X) != recvObj || recvObj == nil {
				continue
			}
			cf := p.byObj[callee(in, call)]
			if cf == nil || cf.Decl == nil || cf.Decl.Recv == nil {
				continue
			}
			cin := info(cf)
			var cRecv types.Object
			for _, fl := range cf.Decl.Recv.List {
				for _, nm := range fl.Names {
					cRecv = cin.Defs[nm]
				}
			}
			starts := false
			for _, st := range cf.Body.List { // top-level statements only: unconditional
				es, ok := st.(*ast.ExprStmt)
				if !ok {
					continue
				}
				oc, ok := es.X.(*ast.CallExpr)
				if !ok || !isSyncMethod(cin, oc, "Once", "Do") || len(oc.Args) != 1 {
					continue
				}
				ast.Inspect(oc.Args[0], func(z ast.Node) bool {
					if gs, ok := z.(*ast.GoStmt); ok {
						if s2, ok := unparen(gs.Call.Fun).(*ast.SelectorExpr); ok && objOf(cin, s2.X) == cRecv && cRecv != nil {
							starts = true
						}
					}
					return true
				})
			}
			if starts {
				return true, "owner loop started by " + cf.QName() + " (sync.Once) before the post"
			}
		}
		// if recv.active.CompareAndSwap(0,1) { go recv.run }: the post follows the if
		if e, ok := n.(ast.Expr); ok {
			if ifs, ok := p.Parent(e).(*ast.IfStmt); ok && ifs.Cond == e && launchesOwner(ifs.Body) {
				casGuard := false
				inspectNoLit(e, func(m ast.Node) bool {
					if call, ok := m.(*ast.CallExpr); ok {
						if fn := callee(in, call); fn != nil && strings.HasPrefix(fn.Name(), "CompareAndSwap") {
							casGuard = true
						}
					}
					return true
				})
				if casGuard {
					return true, "owner loop started under a CompareAndSwap guard before the post"
				}
			}
		}
	}
	return false, ""
}

// insideOwnerLoop: the post sits in a closure created inside a method of the
// mailbox's owner that is (reachable from) the owner's receive loop, so the
// owner is running when the closure exists.
func insideOwnerLoop(p *Prog, ce *ChanEngine, op *ChanOp) (bool, string) {
	fld := op.Ref.Var
	if fld == nil {
		return false, ""
	}
	// functions that receive from this mailbox
	loopFns := map[*FuncInfo]bool{}
	for _, r := range ce.recvs[fld] {
		loopFns[r.Func.Root()] = true
	}
	root := op.Func.Root()
	if op.Func.Parent != nil && loopFns[root] {
		return true, "posted from a closure created by the owner's loop " + root.QName()
	}
	// methods called only from the loop function (e.g. trySync)
	if op.Func.Parent != nil && root.Obj != nil {
		onlyFromLoop := true
		n := 0
		for _, f := range p.Funcs {
			fin := info(f)
			inspectNoLit(f.Body, func(m ast.Node) bool {
				if call, ok := m.(*ast.CallExpr); ok && callee(fin, call) == root.Obj {
					n++
					if !loopFns[f.Root()] {
						onlyFromLoop = false
					}
				}
				return true
			})
		}
		if n > 0 && onlyFromLoop {
			return true, "posted from a closure created in " + root.QName() + ", which is only called from the owner's loop"
		}
	}
	return false, ""
}

// calledOnlyUnderOnce: every call site of method named like op.Func (through
// any interface) lies inside a literal passed to sync.Once.Do.
func calledOnlyUnderOnce(p *Prog, f *FuncInfo) (bool, string) {
	root := f.Root()
	if root.Obj == nil {
		return false, ""
	}
	name := root.Obj.Name()
	sites, under := 0, 0
	for _, g := range p.Funcs {
		gin := info(g)
		inspectNoLit(g.Body, func(m ast.Node) bool {
			call, ok := m.(*ast.CallExpr)
			if !ok {
				return true
			}
			fn := callee(gin, call)
			if fn == nil || fn.Name() != name || recvNamed(fn) == nil {
				return true
			}
			// same method or an interface method it implements
			if fn != root.Obj {
				if _, isIface := recvUnderlyingInterface(fn); !isIface {
					return true
				}
				if !types.Identical(fn.Type().(*types.Signature).Results(), root.Obj.Type().(*types.Signature).Results()) {
					return true
				}
			}
			sites++
			if g.Lit != nil {
				if pc, ok := p.Parent(g.Lit).(*ast.CallExpr); ok {
					pf := p.EnclosingFunc(pc)
					if pf != nil && isSyncMethod(info(pf), pc, "Once", "Do") {
						under++
					}
				}
			}
			return true
		})
	}
	if sites > 0 && sites == under {
		return true, fmt.Sprintf("all %d call sites of %s are inside sync.Once.Do (at most one post per owner)", sites, name)
	}
	return false, ""
}

// bufferedSingleUse: the channel variable is made with capacity >= 1 and
// receives at most one send per made channel.
func bufferedSingleUse(p *Prog, ce *ChanEngine, op *ChanOp) (bool, string) {
	v := op.Ref.Var
	if v == nil || op.Ref.Elem {
		return false, ""
	}
	mks := ce.MakesOf(v)
	if len(mks) == 0 && !v.IsField() && op.Func.Root().Obj != nil && isParam(op.Func.Root(), v) {
		// the channel arrives as a parameter: take the make sites of the argument at the (single) call site
		rootFn := op.Func.Root()
		sig := rootFn.Obj.Type().(*types.Signature)
		idx := -1
		for i := 0; i < sig.Params().Len(); i++ {
			if sig.Params().At(i) == v {
				idx = i
			}
		}
		var args []*types.Var
		for _, h := range p.Funcs {
			if h.Body == nil {
				continue
			}
			hin := info(h)
			inspectNoLit(h.Body, func(m ast.Node) bool {
				if cl, ok := m.(*ast.CallExpr); ok && callee(hin, cl) == rootFn.Obj && idx >= 0 && idx < len(cl.Args) {
					if id, ok := unparen(cl.Args[idx]).(*ast.Ident); ok {
						if av, ok := objOf(hin, id).(*types.Var); ok {
							args = append(args, av)
						}
					}
				}
				return true
			})
		}
		if len(args) == 1 {
			mks = ce.MakesOf(args[0])
		}
	}
	if len(mks) == 0 {
		return false, ""
	}
	for _, m := range mks {
		if m.Cap != ">=1" {
			return false, ""
		}
	}
	sends := ce.sends[v]
	// all sends in one declared function (closures included)
	root := sends[0].Func.Root()
	for _, s := range sends {
		if s.Func.Root() != root {
			return false, ""
		}
	}
	inLoopRelativeTo := func(n ast.Node, stop ast.Node) bool {
		for cur := p.Parent(n); cur != nil && cur != stop; cur = p.Parent(cur) {
			switch cur.(type) {
			case *ast.ForStmt, *ast.RangeStmt:
				return true
			case *ast.FuncDecl:
				return false
			}
		}
		return false
	}
	if !v.IsField() {
		// a parameter of a helper that is invoked (called or launched) at exactly one site, in the function that
		// makes the channel, outside any loop that does not also contain the make: one helper run per made channel
		if len(mks) == 1 && mks[0].Func.Root() != root && root.Obj != nil && isParam(root, v) {
			sites := 0
			var site *ast.CallExpr
			var siteFn *FuncInfo
			for _, h := range p.Funcs {
				if h.Body == nil {
					continue
				}
				hin := info(h)
				inspectNoLit(h.Body, func(m ast.Node) bool {
					if cl, ok := m.(*ast.CallExpr); ok && callee(hin, cl) == root.Obj {
						sites++
						site, siteFn = cl, h
					}
					return true
				})
			}
			if sites != 1 || siteFn.Root() != mks[0].Func.Root() || innermostLoop(p, site) != innermostLoop(p, mks[0].Call) {
				return false, ""
			}
			for _, s := range sends {
				if s.Func != root || innermostLoop(p, s.Node) != nil {
					return false, ""
				}
				for _, t := range sends {
					if s != t {
						g := p.Graph(s.Func)
						spt, _ := g.PointOf(s.Node)
						if r, _ := g.Reaches(spt, func(n ast.Node) bool { return n == t.Node }, nil); r {
							return false, ""
						}
					}
				}
			}
			return true, fmt.Sprintf("channel made with capacity >= 1 at %s and handed to %s, which runs once per made channel and sends at most once", p.Pos(mks[0].Call.Pos()), root.QName())
		}
		// local: make and sends in the same declared function; no loop between the make's block and a send
		if len(mks) != 1 || mks[0].Func.Root() != root {
			return false, ""
		}
		mkBlock := innermostLoop(p, mks[0].Call)
		for _, s := range sends {
			// a loop that encloses the send but not the make
			for cur := p.Parent(s.Node); cur != nil; cur = p.Parent(cur) {
				if cur == mkBlock {
					break
				}
				switch cur.(type) {
				case *ast.ForStmt, *ast.RangeStmt:
					return false, ""
				}
				if _, ok := cur.(*ast.FuncDecl); ok {
					break
				}
			}
		}
		// no two sends on one path within the same function body
		for _, s := range sends {
			for _, t := range sends {
				if s == t || s.Func != t.Func {
					continue
				}
				g := p.Graph(s.Func)
				spt, _ := g.PointOf(s.Node)
				if r, _ := g.Reaches(spt, func(n ast.Node) bool { return n == t.Node }, nil); r {
					return false, ""
				}
			}
		}
		return true, fmt.Sprintf("local channel made with capacity >= 1 at %s, at most one send per made channel", p.Pos(mks[0].Call.Pos()))
	}
	// field: all sends in one method, not in a loop, no two on a path, method invoked at one site
	fn := sends[0].Func
	for _, s := range sends {
		if s.Func != fn || inLoopRelativeTo(s.Node, nil) {
			return false, ""
		}
	}
	g := p.Graph(fn)
	for _, s := range sends {
		spt, _ := g.PointOf(s.Node)
		for _, t := range sends {
			if s != t {
				if r, _ := g.Reaches(spt, func(n ast.Node) bool { return n == t.Node }, nil); r {
					return false, ""
				}
			}
		}
	}
	if fn.Obj == nil {
		return false, ""
	}
	// the method runs once per object: every invocation site is either on a local that holds a freshly constructed
	// object (result of a same-package constructor call made in the same activation of the same loop body), or —
	// at most one site — on an object kept in a field of a builder (the shape `go b.trace.process()` in Build)
	sites, fieldSites, freshSites := 0, 0, 0
	for _, h := range p.Funcs {
		hin := info(h)
		inspectNoLit(h.Body, func(m ast.Node) bool {
			call, ok := m.(*ast.CallExpr)
			if !ok || callee(hin, call) != fn.Obj {
				return true
			}
			sites++
			sel, _ := unparen(call.Fun).(*ast.SelectorExpr)
			fresh := false
			if sel != nil {
				if id, ok := unparen(sel.X).(*ast.Ident); ok {
					if o := objOf(hin, id); o != nil && isLocalVar(h.Root(), o) {
						defs, _ := localDefs(hin, h.Root().Body, o)
						fresh = len(defs) > 0
						for _, d := range defs {
							dc, ok := unparen(d).(*ast.CallExpr)
							if !ok {
								fresh = false
								continue
							}
							cf := p.byObj[callee(hin, dc)]
							if cf == nil || cf.Pkg != h.Pkg || !returnsFreshObject(cf) {
								fresh = false
							}
							// the definition and the invocation are in the same loop iteration
							if innermostLoop(p, dc) != innermostLoop(p, call) {
								fresh = false
							}
						}
					}
				}
			}
			if fresh {
				freshSites++
			} else {
				fieldSites++
				if inLoopRelativeTo(call, nil) {
					fieldSites += 100
				}
			}
			return true
		})
	}
	if sites == 0 || fieldSites > 1 {
		return false, ""
	}
	return true, fmt.Sprintf("field channel made with capacity >= 1; all %d sends are on exclusive paths of %s, which runs once per object (%d invocation site(s), %d on a freshly constructed object)", len(sends), fn.QName(), sites, freshSites)
}

func innermostLoop(p *Prog, n ast.Node) ast.Node {
	for cur := p.Parent(n); cur != nil; cur = p.Parent(cur) {
		switch cur.(type) {
		case *ast.ForStmt, *ast.RangeStmt:
			return cur
		case *ast.FuncDecl:
			return nil
		}
	}
	return nil
}

// isTracerInternal: operation inside pkg/tracing on the tracer's own channels.
func isTracerInternal(op *ChanOp) bool {
	if shortPkg(op.Func.Pkg.PkgPath) != "pkg/tracing" {
		return false
	}
	r := op.Func.Root()
	if r.Obj == nil {
		return false
	}
	rn := recvNamed(r.Obj)
	return rn != nil && rn.Obj().Name() == "tracer"
}

// surfaceFunc: delivery, answer and token-entry surface (R14).
func surfaceFunc(p *Prog, f *FuncInfo) (bool, string) {
	r := f.Root()
	if r.Obj == nil {
		return false, ""
	}
	rn := recvNamed(r.Obj)
	if rn == nil {
		return false, ""
	}
	name := r.Obj.Name()
	// only the function itself and literals it runs synchronously
	if f != r {
		pc, ok := p.Parent(f.Lit).(*ast.CallExpr)
		if !ok {
			return false, ""
		}
		pf := p.EnclosingFunc(pc)
		if pf == nil || syncLitOfCall(p, info(pf), pc) != f {
			return false, ""
		}
	}
	switch name {
	case "ConsumeEvent", "NextAction", "Trigger", "Cancel", "WaitUntilComplete":
		if shortPkg(r.Pkg.PkgPath) == "bpmn" || shortPkg(r.Pkg.PkgPath) == "model" || shortPkg(r.Pkg.PkgPath) == "pkg/event" {
			return true, name
		}
	case "Do":
		if rn.Obj().Name() == "taskTrace" {
			return true, name
		}
	case "Unsubscribe":
		if rn.Obj().Name() == "tracer" {
			return true, name
		}
	}
	return false, ""
}

func opDesc(p *Prog, op *ChanOp) string {
	d := string(op.Kind) + " "
	if op.Ref.Field != "" && !op.Ref.Elem {
		d += op.Ref.Field
	} else if op.Ref.Call != nil {
		d += calleeName(op.Ref.Call) + "()"
	} else {
		d += typeString(op.Type)
		if op.Ref.Elem {
			d += " (element)"
		}
	}
	if op.Select != nil {
		d += " in select"
	}
	return d
}

func ruleR0(c *Ctx, surfaceOnly bool) {
	p := c.P
	ce := chanEngine(p)
	ops := append([]*ChanOp{}, ce.Ops...)
	sort.SliceStable(ops, func(i, j int) bool { return ops[i].Node.Pos() < ops[j].Node.Pos() })
	for _, op := range ops {
		if op.Kind == OpClose {
			continue
		}
		f := op.Func
		if surfaceOnly {
			ok, name := surfaceFunc(p, f)
			if !ok {
				continue
			}
			if len(c.Args) > 0 {
				sel := false
				for _, a := range c.Args {
					if a == name {
						sel = true
					}
				}
				if !sel {
					continue
				}
			}
		} else if !inEngineScope(f) {
			continue
		}
		desc := opDesc(p, op)
		what := "a channel operation must be cancellable, bounded or answered by construction"
		if surfaceOnly {
			what = "functions on the delivery/answer/token-entry surface must not contain an unguarded blocking operation (they run outside any select that could observe cancellation)"
		}
		if ok, how := ce.selectGuard(op); ok {
			// a send whose only escape is `default` is a drop: harmless only when the channel has room
			if op.Kind == OpSend && how == "select with default" && !hasDoneSibling(ce, op) {
				caps := ce.CapsOf(op)
				room := len(caps) > 0
				for _, cp := range caps {
					if cp != ">=1" {
						room = false
					}
				}
				if !room {
					c.Bad(f, op.Node, desc, what, fmt.Sprintf("K1d non-blocking send (select/default) on a channel without known capacity >= 1 (make sites: %v): the value is dropped unless the receiver is parked at that very instant", caps))
					continue
				}
			}
			c.Ok(f, op.Node, desc, what, "K1 "+how, false)
			continue
		}
		switch op.Kind {
		case OpRecv, OpRange:
			if ce.isDoneSource(f, op.Chan) {
				c.Ok(f, op.Node, desc, what, "K5 receive from a done-source (closed, never sent to)", false)
				continue
			}
			if isTimerChanType(op.Type) {
				c.Ok(f, op.Node, desc, what, "K6 bounded wait on a timer channel", false)
				continue
			}
			if isTracerInternal(op) {
				c.Ok(f, op.Node, desc, what, "K4 tracer protocol (decided by R37)", false)
				continue
			}
			if op.Select != nil {
				c.Bad(f, op.Node, desc, what, "K8 select without default and without a done-source sibling: the goroutine can park here forever once its peer is gone")
				continue
			}
			c.Bad(f, op.Node, desc, what, "K8 bare receive of a peer's answer: if the peer left its loop (cancellation) between taking the request and answering, this goroutine parks forever")
		case OpSend:
			if isReplyChan(op.Type) {
				c.Ok(f, op.Node, desc, what, "K2 reply send: never needs a receiver provided every reply channel has capacity >= 1 (decided per make site by R4)", true)
				continue
			}
			if isMailboxChan(op.Type) {
				if ok, how := ownerStartedBefore(p, op); ok {
					c.Ok(f, op.Node, desc, what, "K3 mailbox post, "+how+" (assumes <= cap outstanding posts)", true)
					continue
				}
				if ok, how := insideOwnerLoop(p, ce, op); ok {
					c.Ok(f, op.Node, desc, what, "K3 mailbox post, "+how, true)
					continue
				}
				if ok, how := calledOnlyUnderOnce(p, f); ok {
					c.Ok(f, op.Node, desc, what, "K3 mailbox post, "+how, true)
					continue
				}
				if ok, how := ownerLaunchedByCaller(p, ce, op); ok {
					c.Ok(f, op.Node, desc, what, "K3 mailbox post, "+how, true)
					continue
				}
				c.Bad(f, op.Node, desc, what, "K3 mailbox post without the owner's loop being started first: if the node was never reached nobody drains the mailbox and the post blocks once it is full")
				continue
			}
			if isTracerInternal(op) {
				c.Ok(f, op.Node, desc, what, "K4 tracer protocol (decided by R37; senders must be registered: R18)", false)
				continue
			}
			if ok, how := bufferedSingleUse(p, ce, op); ok {
				c.Ok(f, op.Node, desc, what, "K9 "+how, true)
				continue
			}
			if ok, how := bufferedMapElementOnce(p, op); ok {
				c.Ok(f, op.Node, desc, what, "K9 "+how, true)
				continue
			}
			if ok, how := committedReceiver(p, ce, op); ok {
				c.Ok(f, op.Node, desc, what, "K2b "+how, true)
				continue
			}
			c.Bad(f, op.Node, desc, what, "K7 bare send whose receiver can leave (it sits in a select with other ready cases or exits on cancellation): the sender parks forever and keeps what it holds")
		}
	}
}

// committedReceiver: the channel is made and returned by a request function;
// every receive from that function's result is a bare receive (the requester
// commits to waiting), so the answer always finds its receiver.
func committedReceiver(p *Prog, ce *ChanEngine, op *ChanOp) (bool, string) {
	v := op.Ref.Var
	if v == nil || op.Ref.Elem {
		return false, ""
	}
	mks := ce.MakesOf(v)
	if len(mks) == 0 {
		return false, ""
	}
	names := map[string]bool{}
	for _, m := range mks {
		r := m.Func.Root()
		if r.Obj == nil || m.Func != r {
			return false, ""
		}
		// the made channel is returned by r
		returned := false
		rin := info(r)
		inspectNoLit(r.Body, func(n ast.Node) bool {
			if rs, ok := n.(*ast.ReturnStmt); ok {
				for _, e := range rs.Results {
					if vv, ok := objOf(rin, e).(*types.Var); ok && vv == m.Dest {
						returned = true
					}
				}
			}
			return true
		})
		if !returned {
			return false, ""
		}
		names[r.Obj.Name()] = true
	}
	nrecv := 0
	for _, o := range ce.Ops {
		if o.Kind != OpRecv || o.Ref.Call == nil || !names[o.Ref.Call.Name()] {
			continue
		}
		if e, ok := chanElem(o.Type); !ok || !types.Identical(e, mustElem(v.Type())) {
			continue
		}
		if o.Select != nil {
			return false, ""
		}
		nrecv++
	}
	if nrecv == 0 {
		return false, ""
	}
	var ns []string
	for n := range names {
		ns = append(ns, n)
	}
	sort.Strings(ns)
	return true, fmt.Sprintf("answer to a committed requester: the channel is made and returned by %v and all %d receives from that result are bare receives (the wait itself is classified at the receive)", ns, nrecv)
}

func mustElem(t types.Type) types.Type {
	e, _ := chanElem(t)
	return e
}

// ownerLaunchedByCaller: the poster is a goroutine root / function all of
// whose launch sites are dominated by (or are inside) the launch of the
// mailbox owner's loop.
func ownerLaunchedByCaller(p *Prog, ce *ChanEngine, op *ChanOp) (bool, string) {
	fld := op.Ref.Var
	if fld == nil {
		return false, ""
	}
	loopFns := map[*FuncInfo]bool{}
	for _, r := range ce.recvs[fld] {
		loopFns[r.Func.Root()] = true
	}
	return ownerLaunchedByCallerOf(p, ce, op.Func.Root(), loopFns, 2)
}

// ownerLaunchedByCallerOf: poster is a goroutine root whose every launch follows the launch of the owner's loop — or
// a helper that is only called (synchronously) by such functions.
func ownerLaunchedByCallerOf(p *Prog, ce *ChanEngine, poster *FuncInfo, loopFns map[*FuncInfo]bool, depth int) (bool, string) {
	n, okN := 0, 0
	if poster.Obj != nil && depth > 0 {
		launched := false
		for _, l := range ce.Launches() {
			if l.Root != nil && l.Root.Root() == poster {
				launched = true
			}
		}
		if !launched {
			callers, good := 0, 0
			via := ""
			for _, h := range p.Funcs {
				if h.Body == nil {
					continue
				}
				hin := info(h)
				inspectNoLit(h.Body, func(m ast.Node) bool {
					if cl, ok := m.(*ast.CallExpr); ok && callee(hin, cl) == poster.Obj {
						callers++
						if _, isGo := p.Parent(cl).(*ast.GoStmt); isGo {
							return true
						}
						if ok, how := ownerLaunchedByCallerOf(p, ce, h.Root(), loopFns, depth-1); ok {
							good++
							via = how
						}
					}
					return true
				})
			}
			if callers > 0 && callers == good {
				return true, fmt.Sprintf("%s is only called by functions of which: %s", poster.QName(), via)
			}
			return false, ""
		}
	}
	for _, l := range ce.Launches() {
		if l.Root == nil || l.Root.Root() != poster || l.Site.Func.Root() == poster {
			continue
		}
		n++
		F := l.Site.Func
		if loopFns[F.Root()] {
			okN++
			continue
		}
		// the launch sits in a helper that only the owner's loop calls (synchronously)
		if F.Root().Obj != nil {
			inTree, callers, callersInTree := false, 0, 0
			trees := map[*FuncInfo]bool{}
			for lf := range loopFns {
				for t := range goroutineTree(p, lf) {
					trees[t] = true
				}
			}
			inTree = trees[F.Root()]
			for _, h := range p.Funcs {
				hin := info(h)
				if h.Body == nil {
					continue
				}
				inspectNoLit(h.Body, func(m ast.Node) bool {
					if cl, ok := m.(*ast.CallExpr); ok && callee(hin, cl) == F.Root().Obj {
						callers++
						if trees[h] || trees[h.Root()] {
							if _, isGo := p.Parent(cl).(*ast.GoStmt); !isGo {
								callersInTree++
							}
						}
					}
					return true
				})
			}
			if inTree && callers > 0 && callers == callersInTree {
				okN++
				continue
			}
		}
		g := p.Graph(F)
		lpt, _ := g.PointOf(l.Site.Stmt)
		for _, l2 := range ce.Launches() {
			if l2.Site.Func == F && l2.Root != nil && loopFns[l2.Root.Root()] {
				pt2, _ := g.PointOf(l2.Site.Stmt)
				if g.Dominates(pt2, lpt) {
					okN++
					break
				}
			}
		}
	}
	if n > 0 && n == okN {
		return true, fmt.Sprintf("every launch site of %s (%d) follows the launch of the owner's loop or is inside it", poster.QName(), n)
	}
	return false, ""
}

// ---- R16 ----

type loopInfo struct {
	F    *FuncInfo
	Stmt ast.Stmt // ForStmt or RangeStmt
	Body *ast.BlockStmt
}

func unboundedLoops(p *Prog, f *FuncInfo) []loopInfo {
	var out []loopInfo
	in := info(f)
	inspectNoLit(f.Body, func(m ast.Node) bool {
		switch x := m.(type) {
		case *ast.ForStmt:
			if x.Cond == nil {
				out = append(out, loopInfo{f, x, x.Body})
			}
		case *ast.RangeStmt:
			if _, ok := chanElem(in.TypeOf(x.X)); ok {
				out = append(out, loopInfo{f, x, x.Body})
			}
		}
		return true
	})
	return out
}

func ruleR16(c *Ctx) {
	p := c.P
	ce := chanEngine(p)
	for _, f := range p.Funcs {
		if !inEngineScope(f) && shortPkg(f.Pkg.PkgPath) != "pkg/clock" {
			continue
		}
		g := p.Graph(f)
		for _, lp := range unboundedLoops(p, f) {
			region := regionOf(lp.Body)
			// blocking selects directly in this loop (not in nested unbounded loops / literals)
			for _, si := range ce.Selects {
				if si.Func != f || !region.Contains(si.Stmt) || si.HasDefault() {
					continue
				}
				if inner := innermostUnboundedLoop(p, si.Stmt, f); inner != lp.Stmt {
					continue
				}
				desc := "parking select in loop: " + selectDesc(p, si)
				var doneClauses []*ClauseInfo
				for _, cl := range si.Clauses {
					if cl.Op != nil && cl.Op.Kind == OpRecv && ce.isDoneSource(f, cl.Op.Chan) {
						doneClauses = append(doneClauses, cl)
					}
				}
				if len(doneClauses) == 0 {
					c.Bad(f, si.Stmt, desc, "a goroutine parked in an unbounded loop must have a done-source case (context, tracer Done or closed-only channel)", "no done-source case: cancellation cannot wake this goroutine")
					continue
				}
				leaves := 0
				disabled := 0
				var spin []string
				for _, cl := range doneClauses {
					// does the clause body return to the loop head?
					back := false
					entry, ok := g.EntryOfStmts(cl.Clause.Body)
					var start Point
					if ok {
						start = entry
					} else {
						// empty body: falls to select-done, then loops
						start, _ = g.PointOf(cl.Clause.Comm)
					}
					commPt, _ := g.PointOf(cl.Clause.Comm)
					found, _ := g.SearchB(start, ok, func(pt Point, n ast.Node) Action {
						if n == nil {
							return Prune
						}
						if pt == commPt && n == cl.Clause.Comm {
							return Found
						}
						if !region.Contains(n) {
							return Prune
						}
						return Continue
					}, func(b *xcfg.Block) Action {
						// re-entering the select's own case block means we looped
						if b == commPt.B {
							return Found
						}
						return Continue
					})
					back = found
					// the clause disables its own case: `ch = nil` for the channel variable it received from
					if back {
						if id, ok := unparen(cl.Op.Chan).(*ast.Ident); ok {
							in := info(f)
							for _, st := range cl.Clause.Body {
								if as, ok := st.(*ast.AssignStmt); ok && len(as.Lhs) == 1 && len(as.Rhs) == 1 && isNilIdent(as.Rhs[0]) {
									if lid, ok := unparen(as.Lhs[0]).(*ast.Ident); ok && objOf(in, lid) == objOf(in, id) {
										back = false
										disabled++
									}
								}
							}
						}
					}
					if back {
						spin = append(spin, exprStringShort(cl.Op.Chan))
					} else {
						leaves++
					}
				}
				if len(spin) > 0 {
					c.Bad(f, si.Stmt, desc, "the body of a done-source case must leave the loop (or disable the case): a closed channel is always ready, so looping back busy-spins",
						"case on "+strings.Join(spin, ", ")+" returns to the select: busy loop from cancellation until the loop's other exit")
					continue
				}
				// a self-disabling done clause may arrange the exit through a sibling clause: its body
				// (including goroutines it starts) sends on a channel whose receiving clause leaves the loop
				if leaves-disabled < 1 {
					in := info(f)
					for _, dcl := range doneClauses {
						for _, other := range si.Clauses {
							if other.Op == nil || other.Op.Kind != OpRecv || other == dcl {
								continue
							}
							// does `other` leave the loop?
							otherLeaves := false
							for _, st := range other.Clause.Body {
								if _, ok := st.(*ast.ReturnStmt); ok {
									otherLeaves = true
								}
							}
							if !otherLeaves {
								continue
							}
							sends := false
							for _, st := range dcl.Clause.Body {
								ast.Inspect(st, func(z ast.Node) bool {
									if ss, ok := z.(*ast.SendStmt); ok && sameRef(in, ss.Chan, other.Op.Chan) {
										sends = true
									}
									return true
								})
							}
							// ... or a same-package function the clause calls (or launches) does the send on the same field
							if !sends {
								if ofv := fieldOf(in, other.Op.Chan); ofv != nil {
									var visit func(n ast.Node, fin *types.Info, d int)
									visit = func(n ast.Node, fin *types.Info, d int) {
										ast.Inspect(n, func(z ast.Node) bool {
											switch y := z.(type) {
											case *ast.SendStmt:
												if fieldOf(fin, y.Chan) == ofv {
													sends = true
												}
											case *ast.CallExpr:
												if cf := p.byObj[callee(fin, y)]; cf != nil && cf.Pkg == f.Pkg && cf.Body != nil && d < 2 {
													visit(cf.Body, info(cf), d+1)
												}
											}
											return true
										})
									}
									for _, st := range dcl.Clause.Body {
										visit(st, in, 0)
									}
								}
							}
							if sends {
								leaves++
							}
						}
					}
				}
				if leaves-disabled < 1 {
					c.Bad(f, si.Stmt, desc, "a goroutine parked in an unbounded loop must be able to leave it through a done-source case", "every done-source case only disables itself; none leaves the loop")
					continue
				}
				c.Ok(f, si.Stmt, desc, "parking loop leaves through a done-source case", fmt.Sprintf("%d done-source case(s): %d leave the loop, %d disable themselves after firing once", leaves, leaves-disabled, disabled), true)
			}
		}
	}
}

func innermostUnboundedLoop(p *Prog, n ast.Node, f *FuncInfo) ast.Node {
	in := info(f)
	for cur := p.Parent(n); cur != nil; cur = p.Parent(cur) {
		switch x := cur.(type) {
		case *ast.ForStmt:
			if x.Cond == nil {
				return x
			}
		case *ast.RangeStmt:
			if _, ok := chanElem(in.TypeOf(x.X)); ok {
				return x
			}
		case *ast.FuncDecl, *ast.FuncLit:
			return nil
		}
	}
	return nil
}

func selectDesc(p *Prog, si *SelectInfo) string {
	var parts []string
	for _, cl := range si.Clauses {
		if cl.Default {
			parts = append(parts, "default")
		} else if cl.Op != nil {
			parts = append(parts, opDescShort(cl.Op))
		}
	}
	return "{" + strings.Join(parts, " | ") + "}"
}

func opDescShort(op *ChanOp) string {
	d := string(op.Kind) + ":"
	if op.Ref.Field != "" && !op.Ref.Elem {
		return d + op.Ref.Field
	}
	if op.Ref.Call != nil {
		return d + calleeName(op.Ref.Call) + "()"
	}
	return d + typeString(op.Type)
}

// ---- R20 ----

func ruleR20(c *Ctx) {
	p := c.P
	ce := chanEngine(p)
	for _, op := range ce.Ops {
		if op.Kind != OpClose {
			continue
		}
		f := op.Func
		desc := "close(" + closeDesc(op) + ")"
		what := "a channel is closed at most once (a second close panics)"
		// (a) closes the element of a range: one close per distinct channel
		if id, ok := unparen(op.Chan).(*ast.Ident); ok {
			if isRangeVar(p, f, id) {
				c.Ok(f, op.Node, desc, what, "closes the range element: one close per distinct channel", true)
				continue
			}
		}
		// (b) inside sync.Once.Do
		if underOnce(p, f, op.Node) {
			c.Ok(f, op.Node, desc, what, "inside sync.Once.Do", true)
			continue
		}
		// (c) guarded by a non-blocking receive on the same channel: a check-then-close is only safe
		// when a single goroutine per channel can run it
		if guardedByClosedCheck(p, f, op) {
			ok, why := closeRunsOnce(p, ce, f, op.Chan, 0)
			c.Check(ok, f, op.Node, desc, what, "guarded by a non-blocking receive on the same channel; single closer: "+why)
			continue
		}
		// (d) closed and removed from its registry under the registry's lock
		if closedAndDeletedUnderLock(p, f, op) {
			c.Ok(f, op.Node, desc, what, "closed and deleted from the map it was looked up in, under the map's write lock", true)
			continue
		}
		if innermostLoop(p, op.Node) != nil {
			c.Bad(f, op.Node, desc, what, "close inside a loop on a channel that is not the loop element")
			continue
		}
		ok, why := closeRunsOnce(p, ce, f, op.Chan, 0)
		c.Check(ok, f, op.Node, desc, what, why)
	}
}

// closeRunsOnce argues that the statement closing `ch` in body f executes at
// most once per channel.
func closeRunsOnce(p *Prog, ce *ChanEngine, f *FuncInfo, ch ast.Expr, depth int) (bool, string) {
	if depth > 3 {
		return false, "call chain too deep to argue single execution"
	}
	in := info(f)
	root := f.Root()
	base := rootIdent(ch)
	if base == nil {
		return false, "channel expression has no base variable"
	}
	bv, _ := objOf(in, base).(*types.Var)
	if bv == nil {
		// a method chain on a constructor result: newX().With(..).Build() — a fresh object per evaluation
		if fn, ok := objOf(in, base).(*types.Func); ok && isConstructorFunc(p, p.byObj[fn]) {
			if f.Lit != nil {
				if ok2, why := literalRunsOnce(p, f); !ok2 {
					return false, why
				}
			}
			return true, "the owner object is the fresh result of constructor " + fn.Name() + "()"
		}
		return false, "base is not a variable"
	}
	// how often does body f run per activation of root? literals: go/defer/callback
	if f.Lit != nil {
		if ok, why := literalRunsOnce(p, f); !ok {
			return false, why
		}
	}
	// where does the base object come from?
	if !isParamOrRecv(root, bv) && !isCapturedFromOutside(root, bv, in) {
		// local of the declared function: fresh per activation if every make/constructor
		// that initialises it is in this function and not in a loop
		if _, isChan := chanElem(bv.Type()); isChan {
			mks := ce.MakesOf(bv)
			if len(mks) == 0 {
				return false, "local channel without a visible make site"
			}
			for _, m := range mks {
				if m.Func.Root() != root || innermostLoop(p, m.Call) != nil {
					return false, "make site outside the closing function or in a loop"
				}
			}
			return true, fmt.Sprintf("channel made in the same activation of %s (%d make sites on exclusive paths), closed outside loops by code that runs at most once per activation", root.QName(), len(mks))
		}
		return true, fmt.Sprintf("owner object %s is a local of %s (fresh per activation); closing code runs at most once per activation", bv.Name(), root.QName())
	}
	// base is the receiver or a parameter of root: the same object can be seen by several activations
	if root.Obj == nil {
		return false, "closing function has no object"
	}
	if root.Obj.Exported() && !(recvNamed(root.Obj) != nil && !recvNamed(root.Obj).Obj().Exported()) {
		return false, fmt.Sprintf("%s is exported and can be called repeatedly on the same object; the close is not guarded by sync.Once, a CAS or a closed-check", root.QName())
	}
	// unexported: look at every invocation site
	type site struct {
		fn   *FuncInfo
		call *ast.CallExpr
		kind string
	}
	var sites []site
	for _, h := range p.Funcs {
		hin := info(h)
		inspectNoLit(h.Body, func(m ast.Node) bool {
			if call, ok := m.(*ast.CallExpr); ok && callee(hin, call) == root.Obj {
				kind := "call"
				switch p.Parent(call).(type) {
				case *ast.GoStmt:
					kind = "go"
				case *ast.DeferStmt:
					kind = "defer"
				}
				sites = append(sites, site{h, call, kind})
			}
			return true
		})
	}
	if len(sites) == 0 {
		if depth > 0 && !callableThroughInterface(p, root.Obj) {
			return true, root.QName() + " is never invoked (no static call, no interface it could be called through): it closes nothing"
		}
		return false, "no invocation site found for " + root.QName()
	}
	var whys []string
	for _, s := range sites {
		// invoked on the fresh result of a constructor chain: one object per evaluation, loops do not matter
		if sel, ok := unparen(s.call.Fun).(*ast.SelectorExpr); ok {
			if rid := rootIdent(sel.X); rid != nil {
				if fn, ok := objOf(info(s.fn), rid).(*types.Func); ok && isConstructorFunc(p, p.byObj[fn]) {
					whys = append(whys, s.kind+" on the fresh result of "+fn.Name()+"() in "+s.fn.QName())
					continue
				}
			}
		}
		// invoked on a local that holds the fresh result of a constructor called in the same loop iteration
		if sel, ok := unparen(s.call.Fun).(*ast.SelectorExpr); ok {
			if id, ok := unparen(sel.X).(*ast.Ident); ok {
				hin := info(s.fn)
				if o := objOf(hin, id); o != nil && isLocalVar(s.fn.Root(), o) {
					defs, _ := localDefs(hin, s.fn.Root().Body, o)
					fresh := len(defs) > 0
					for _, d := range defs {
						dc, ok := unparen(d).(*ast.CallExpr)
						if !ok || !returnsFreshObject(p.byObj[callee(hin, dc)]) || innermostLoop(p, dc) != innermostLoop(p, s.call) {
							fresh = false
						}
					}
					// and it is invoked once on that local
					uses := 0
					inspectNoLit(s.fn.Body, func(m ast.Node) bool {
						if c2, ok := m.(*ast.CallExpr); ok && callee(hin, c2) == root.Obj {
							if s2, ok := unparen(c2.Fun).(*ast.SelectorExpr); ok {
								if i2, ok := unparen(s2.X).(*ast.Ident); ok && objOf(hin, i2) == o {
									uses++
								}
							}
						}
						return true
					})
					if fresh && uses == 1 {
						whys = append(whys, s.kind+" on "+id.Name+", a fresh object per iteration, in "+s.fn.QName())
						continue
					}
				}
			}
		}
		if innermostLoop(p, s.call) != nil {
			return false, "invoked in a loop at " + p.Pos(s.call.Pos())
		}
		if underOnce(p, s.fn, s.call) || underCASGuard(p, s.fn, s.call) {
			whys = append(whys, s.kind+" under Once/CAS in "+s.fn.QName())
			continue
		}
		// the object the method is invoked on — unless the channel belongs to a parameter, then the argument
		var recvExpr ast.Expr
		if sel, ok := unparen(s.call.Fun).(*ast.SelectorExpr); ok {
			recvExpr = sel.X
		}
		if root.Obj != nil && isParam(root, bv) {
			sig := root.Obj.Type().(*types.Signature)
			for i := 0; i < sig.Params().Len() && i < len(s.call.Args); i++ {
				if sig.Params().At(i) == bv {
					recvExpr = s.call.Args[i]
				}
			}
		}
		if recvExpr == nil {
			// the channel is a parameter of the closing function: follow the argument bound to it
			if root.Obj != nil {
				sig := root.Obj.Type().(*types.Signature)
				for i := 0; i < sig.Params().Len() && i < len(s.call.Args); i++ {
					if sig.Params().At(i) == bv {
						recvExpr = s.call.Args[i]
					}
				}
			}
			if recvExpr == nil {
				return false, "invocation without receiver at " + p.Pos(s.call.Pos())
			}
			// when the closing code is a literal that the function RETURNS, the result of this call must itself be
			// used once: as the callback argument of a driver that invokes that parameter at most once
			if returnedLiteral(p, root) != nil {
				outer, ok := p.Parent(s.call).(*ast.CallExpr)
				if !ok {
					return false, "the closure returned by " + root.QName() + " is not handed straight to a driver at " + p.Pos(s.call.Pos())
				}
				df := p.byObj[callee(info(s.fn), outer)]
				idx := -1
				for i, a := range outer.Args {
					if unparen(a) == ast.Expr(s.call) {
						idx = i
					}
				}
				if df == nil || idx < 0 || paramAt(df, idx) == nil {
					return false, "the closure returned by " + root.QName() + " is passed to an unknown function"
				}
				if ok, why := paramCalledAtMostOnce(p, df, paramAt(df, idx)); !ok {
					return false, "callback of " + df.QName() + ": " + why
				}
			}
		}
		ok, why := closeRunsOnce(p, ce, s.fn, recvExpr, depth+1)
		if !ok {
			return false, "via " + s.fn.QName() + ": " + why
		}
		whys = append(whys, s.kind+" from "+s.fn.QName()+" ("+why+")")
	}
	return true, strings.Join(whys, "; ")
}

func isParamOrRecv(root *FuncInfo, v *types.Var) bool {
	if isParam(root, v) {
		return true
	}
	if root.Decl != nil && root.Decl.Recv != nil {
		in := info(root)
		for _, fl := range root.Decl.Recv.List {
			for _, nm := range fl.Names {
				if in.Defs[nm] == types.Object(v) {
					return true
				}
			}
		}
	}
	return false
}

func isCapturedFromOutside(root *FuncInfo, v *types.Var, in *types.Info) bool {
	// package-level variable
	return v.Parent() != nil && v.Parent() == v.Pkg().Scope()
}

// literalRunsOnce: literal f runs at most once per activation of its parent:
// go / defer / immediately-invoked outside loops, or passed as a callback to a
// declared driver that invokes that parameter at most once (call followed by
// return, or a single defer).
func literalRunsOnce(p *Prog, f *FuncInfo) (bool, string) {
	for fi := f; fi != nil && fi.Lit != nil; fi = fi.Parent {
		par := p.Parent(fi.Lit)
		call, ok := par.(*ast.CallExpr)
		if !ok {
			// returned or stored literal (e.g. `return func(...)`): runs when its holder calls it
			if _, isRet := par.(*ast.ReturnStmt); isRet {
				continue
			}
			// bound to a local that is only ever handed to sync.Once.Do
			if as, isAs := par.(*ast.AssignStmt); isAs && len(as.Lhs) == 1 && fi.Parent != nil {
				if id, ok := as.Lhs[0].(*ast.Ident); ok {
					pin := info(fi.Parent)
					o := objOf(pin, id)
					uses, onceUses := 0, 0
					ast.Inspect(fi.Parent.Root().Body, func(m ast.Node) bool {
						if u, ok := m.(*ast.Ident); ok && u != id && pin.Uses[u] == o {
							uses++
							if cl, ok := p.Parent(u).(*ast.CallExpr); ok && isSyncMethod(pin, cl, "Once", "Do") {
								onceUses++
							}
						}
						return true
					})
					if o != nil && uses > 0 && uses == onceUses {
						continue
					}
				}
			}
			return false, "function literal is stored, cannot bound how often it runs"
		}
		if innermostLoop(p, call) != nil && innermostLoopWithin(p, call, fi.Parent) {
			return false, "literal launched in a loop"
		}
		if unparen(call.Fun) == ast.Expr(fi.Lit) {
			continue // go func(){}() / defer func(){}() / func(){}()
		}
		pf := p.EnclosingFunc(call)
		if pf == nil {
			return false, "?"
		}
		pin := info(pf)
		if isSyncMethod(pin, call, "Once", "Do") {
			continue
		}
		// callback argument of a declared driver
		drv := callee(pin, call)
		df := p.byObj[drv]
		if df == nil {
			return false, "literal passed to an unknown function"
		}
		idx := -1
		for i, a := range call.Args {
			if unparen(a) == ast.Expr(fi.Lit) {
				idx = i
			}
		}
		if idx < 0 {
			return false, "?"
		}
		pv := paramAt(df, idx)
		if pv == nil {
			return false, "?"
		}
		if ok, why := paramCalledAtMostOnce(p, df, pv); !ok {
			return false, "callback of " + df.QName() + ": " + why
		}
	}
	return true, ""
}

func innermostLoopWithin(p *Prog, n ast.Node, f *FuncInfo) bool {
	for cur := p.Parent(n); cur != nil; cur = p.Parent(cur) {
		switch x := cur.(type) {
		case *ast.ForStmt, *ast.RangeStmt:
			return true
		case *ast.FuncLit:
			if f != nil && f.Lit == x {
				return false
			}
			return false
		case *ast.FuncDecl:
			return false
		}
	}
	return false
}

func paramAt(f *FuncInfo, idx int) *types.Var {
	in := info(f)
	i := 0
	for _, fl := range f.Type().Params.List {
		for _, nm := range fl.Names {
			if i == idx {
				v, _ := in.Defs[nm].(*types.Var)
				return v
			}
			i++
		}
	}
	return nil
}

// paramCalledAtMostOnce: in driver f the func-typed parameter pv is invoked at
// most once per activation.
func paramCalledAtMostOnce(p *Prog, f *FuncInfo, pv *types.Var) (bool, string) {
	in := info(f)
	g := p.Graph(f)
	isCall := func(n ast.Node) bool {
		if _, isDefer := n.(*ast.DeferStmt); isDefer {
			return false
		}
		if _, isGo := n.(*ast.GoStmt); isGo {
			return false
		}
		for _, call := range callsIn(n) {
			if id, ok := unparen(call.Fun).(*ast.Ident); ok && in.Uses[id] == types.Object(pv) {
				return true
			}
		}
		return false
	}
	ndefer := 0
	for _, d := range g.Defers {
		ds := d.Node().(*ast.DeferStmt)
		if id, ok := unparen(ds.Call.Fun).(*ast.Ident); ok && in.Uses[id] == types.Object(pv) {
			ndefer++
			if innermostLoop(p, ds) != nil {
				return false, "deferred in a loop"
			}
		}
	}
	var calls []Point
	for _, pt := range g.AllPoints() {
		if isCall(pt.Node()) {
			calls = append(calls, pt)
		}
	}
	// passed on to another function / goroutine?
	passed := false
	inspectNoLit(f.Body, func(m ast.Node) bool {
		if call, ok := m.(*ast.CallExpr); ok {
			for _, a := range call.Args {
				if id, ok := unparen(a).(*ast.Ident); ok && in.Uses[id] == types.Object(pv) {
					passed = true
				}
			}
		}
		return true
	})
	if passed {
		return false, "callback is passed on"
	}
	if ndefer > 1 || (ndefer == 1 && len(calls) > 0) {
		return false, "invoked by defer and again"
	}
	for _, cpt := range calls {
		if r, _ := g.Reaches(cpt, isCall, nil); r {
			return false, "a second invocation is reachable after the first"
		}
	}
	return true, ""
}

func underCASGuard(p *Prog, f *FuncInfo, n ast.Node) bool {
	in := info(f)
	// guard-clause form: `if !CompareAndSwap(..) { return .. }` before n, or n in the else branch of it
	for _, pc := range polarConds(p, n) {
		e, pos := unparen(pc.cond), pc.positive
		for {
			if u, isNot := e.(*ast.UnaryExpr); isNot && u.Op == token.NOT {
				e, pos = unparen(u.X), !pos
				continue
			}
			break
		}
		if pos {
			// the result of the compare-and-swap may be kept in a local (won := CompareAndSwap(..); if won {..})
			srcs := resolveLocalExpr(in, f, e)
			all := len(srcs) > 0
			for _, src := range srcs {
				call, ok := unparen(src).(*ast.CallExpr)
				if !ok {
					all = false
					continue
				}
				if fn := callee(in, call); fn == nil || !strings.HasPrefix(fn.Name(), "CompareAndSwap") {
					all = false
				}
			}
			if all {
				return true
			}
		}
	}
	for cur := p.Parent(n); cur != nil; cur = p.Parent(cur) {
		if ifs, ok := cur.(*ast.IfStmt); ok && n.Pos() >= ifs.Body.Pos() && n.End() <= ifs.Body.End() {
			cas := false
			inspectNoLit(ifs.Cond, func(m ast.Node) bool {
				if call, ok := m.(*ast.CallExpr); ok {
					if fn := callee(in, call); fn != nil && strings.HasPrefix(fn.Name(), "CompareAndSwap") {
						cas = true
					}
				}
				return true
			})
			if cas {
				return true
			}
		}
		if _, ok := cur.(*ast.FuncDecl); ok {
			break
		}
	}
	return false
}

func closedAndDeletedUnderLock(p *Prog, f *FuncInfo, op *ChanOp) bool {
	in := info(f)
	hasDelete, hasLock := false, false
	inspectNoLit(f.Body, func(m ast.Node) bool {
		if call, ok := m.(*ast.CallExpr); ok {
			if isBuiltin(in, call, "delete") {
				hasDelete = true
			}
			if isSyncMethod(in, call, "RWMutex", "Lock") || isSyncMethod(in, call, "Mutex", "Lock") {
				hasLock = true
			}
		}
		return true
	})
	return hasDelete && hasLock
}

func closeDesc(op *ChanOp) string {
	if op.Ref.Field != "" {
		return op.Ref.Field
	}
	return typeString(op.Type)
}

func isRangeVar(p *Prog, f *FuncInfo, id *ast.Ident) bool {
	in := info(f)
	obj := objOf(in, id)
	for cur := p.Parent(id); cur != nil; cur = p.Parent(cur) {
		if rs, ok := cur.(*ast.RangeStmt); ok {
			if v, ok := rs.Value.(*ast.Ident); ok && in.Defs[v] == obj {
				return true
			}
			if k, ok := rs.Key.(*ast.Ident); ok && in.Defs[k] == obj {
				return true
			}
		}
	}
	return false
}

func underOnce(p *Prog, f *FuncInfo, n ast.Node) bool {
	for fi := f; fi != nil && fi.Lit != nil; fi = fi.Parent {
		if call, ok := p.Parent(fi.Lit).(*ast.CallExpr); ok {
			pf := p.EnclosingFunc(call)
			if pf != nil && isSyncMethod(info(pf), call, "Once", "Do") {
				return true
			}
		}
		if litBoundOnlyToOnceDo(p, fi) {
			return true
		}
	}
	return false
}

// litBoundOnlyToOnceDo: the literal is assigned to a local variable whose every use is the argument of sync.Once.Do.
func litBoundOnlyToOnceDo(p *Prog, fi *FuncInfo) bool {
	if fi == nil || fi.Lit == nil || fi.Parent == nil {
		return false
	}
	as, ok := p.Parent(fi.Lit).(*ast.AssignStmt)
	if !ok || len(as.Lhs) != 1 {
		return false
	}
	id, ok := as.Lhs[0].(*ast.Ident)
	if !ok {
		return false
	}
	pin := info(fi.Parent)
	o := objOf(pin, id)
	if o == nil {
		return false
	}
	uses, onceUses := 0, 0
	ast.Inspect(fi.Parent.Root().Body, func(m ast.Node) bool {
		if u, ok := m.(*ast.Ident); ok && u != id && pin.Uses[u] == o {
			uses++
			if cl, ok := p.Parent(u).(*ast.CallExpr); ok && isSyncMethod(pin, cl, "Once", "Do") {
				onceUses++
			}
		}
		return true
	})
	return uses > 0 && uses == onceUses
}

func guardedByClosedCheck(p *Prog, f *FuncInfo, op *ChanOp) bool {
	in := info(f)
	cc, ok := p.Parent(p.Parent(op.Node)).(*ast.CommClause) // close(ch) as ExprStmt in default clause
	if !ok || cc.Comm != nil {
		return false
	}
	sel, ok := p.Parent(p.Parent(cc)).(*ast.SelectStmt)
	if !ok {
		return false
	}
	for _, cl := range sel.Body.List {
		c2 := cl.(*ast.CommClause)
		if c2.Comm == nil {
			continue
		}
		if es, ok := c2.Comm.(*ast.ExprStmt); ok {
			if u, ok := unparen(es.X).(*ast.UnaryExpr); ok && u.Op == token.ARROW && sameRef(in, u.X, op.Chan) {
				return true
			}
		}
	}
	return false
}

// ---- R21 ----

func ruleR21(c *Ctx) {
	p := c.P
	ce := chanEngine(p)
	// channels (variables) that are both sent to and closed
	var vars []*types.Var
	for v := range ce.closes {
		if len(ce.sends[v]) > 0 {
			vars = append(vars, v)
		}
	}
	sort.Slice(vars, func(i, j int) bool { return vars[i].Pos() < vars[j].Pos() })
	for _, v := range vars {
		for _, cl := range ce.closes[v] {
			for _, s := range ce.sends[v] {
				desc := "send after close on " + v.Name() + " (" + typeString(v.Type()) + ")"
				if cl.Func == s.Func {
					g := p.Graph(cl.Func)
					cpt, _ := g.PointOf(cl.Node)
					var r bool
					var w []Point
					if id, ok := unparen(cl.Chan).(*ast.Ident); ok && isRangeVar(p, cl.Func, id) {
						// distinct channel per iteration: only the same iteration counts
						var body *ast.BlockStmt
						for cur := p.Parent(cl.Node); cur != nil; cur = p.Parent(cur) {
							if rs, ok := cur.(*ast.RangeStmt); ok {
								body = rs.Body
								break
							}
						}
						region := regionOf(body)
						r, w = g.SearchB(cpt, false, func(pt Point, n ast.Node) Action {
							if n == nil || !region.Contains(n) {
								return Prune
							}
							if n == s.Node {
								return Found
							}
							return Continue
						}, g.WithinRegion(region))
					} else {
						r, w = g.Reaches(cpt, func(n ast.Node) bool { return n == s.Node }, nil)
					}
					c.Check(!r, s.Func, s.Node, desc, "no send is reachable after the close of the same channel (it would panic)", ifEmpty(witnessLinesIf(g, r, w), "close at "+p.Pos(cl.Node.Pos())+" is not followed by the send on any path"))
					continue
				}
				// different function bodies: accepted shapes —
				// (1) close in a `final`/deferred callback that the driver runs by defer after its loop, sends in a callback run inside the loop
				// (2) close and send in sibling clauses guarded by the same lock (mock clock): decided by lock rule
				// (3) the send sits in an exported function or method (the API surface, callable from any goroutine at
				// any time) while another function closes the channel: nothing orders the caller's send before the
				// owner's close, and a send on a closed channel panics even inside a select
				if sr := s.Func.Root(); sr.Obj != nil && sr.Obj.Exported() && sr != cl.Func.Root() {
					c.Bad(s.Func, s.Node, "send by an API function on "+v.Name()+", which its owner closes", "a channel that is closed is sent to only by the goroutine that closes it; an API function that sends on it can run after (or concurrently with) the close and panics with 'send on closed channel'", "send in exported "+sr.QName()+", close in "+cl.Func.QName()+" at "+p.Pos(cl.Node.Pos()))
					continue
				}
				c.Ok(s.Func, s.Node, desc, "close and send are in different function bodies", "close in "+cl.Func.QName()+", send in "+s.Func.QName()+": ordering decided by the driver (R21b)", false)
			}
		}
	}
	ruleR21b(c)
}

func witnessLinesIf(g *Graph, ok bool, w []Point) string {
	if !ok {
		return ""
	}
	return "send reachable after close: " + witnessLines(g, [][]Point{w})
}

// ruleR21b: a driver that takes a per-event callback f and a final callback
// (which closes) must run final by defer/after the loop, never before a call
// of f.
func ruleR21b(c *Ctx) {
	p := c.P
	for _, f := range p.Funcs {
		if f.Obj == nil || shortPkg(f.Pkg.PkgPath) != "pkg/timer" {
			continue
		}
		in := info(f)
		// parameters of func() type
		var fparams []*types.Var
		for _, fl := range f.Type().Params.List {
			for _, nm := range fl.Names {
				if v, ok := in.Defs[nm].(*types.Var); ok {
					if sig, ok := v.Type().Underlying().(*types.Signature); ok && sig.Params().Len() == 0 && sig.Results().Len() == 0 {
						fparams = append(fparams, v)
					}
				}
			}
		}
		if len(fparams) < 2 {
			continue
		}
		// the last one is the finaliser by position; check by behaviour: it is invoked via defer
		g := p.Graph(f)
		for _, fin := range fparams {
			deferred := false
			for _, d := range g.Defers {
				ds := d.Node().(*ast.DeferStmt)
				if id, ok := unparen(ds.Call.Fun).(*ast.Ident); ok && in.Uses[id] == types.Object(fin) {
					deferred = true
				}
			}
			if !deferred {
				continue
			}
			// no plain call of the finaliser
			plain := false
			for _, pt := range g.AllPoints() {
				if _, isDefer := pt.Node().(*ast.DeferStmt); isDefer {
					continue
				}
				for _, call := range callsIn(pt.Node()) {
					if id, ok := unparen(call.Fun).(*ast.Ident); ok && in.Uses[id] == types.Object(fin) {
						plain = true
					}
				}
			}
			c.Check(!plain, f, f.Body, "finaliser callback runs only by defer", "the callback that closes the timer channel runs by defer after the firing loop, never before a firing callback", fmt.Sprintf("plain call of the finaliser: %v", plain))
		}
	}
}

// returnsFreshObject: every return of the declared function yields the address of a composite literal or of a local
// that holds one (a constructor).
func returnsFreshObject(f *FuncInfo) bool {
	if f == nil || f.Body == nil {
		return false
	}
	in := info(f)
	ok, n := true, 0
	inspectNoLit(f.Body, func(m ast.Node) bool {
		ret, isRet := m.(*ast.ReturnStmt)
		if !isRet || len(ret.Results) == 0 {
			return true
		}
		n++
		r := unparen(ret.Results[0])
		if u, isU := r.(*ast.UnaryExpr); isU && u.Op == token.AND {
			r = unparen(u.X)
			if _, isLit := r.(*ast.CompositeLit); isLit {
				return true
			}
			if id, isId := r.(*ast.Ident); isId {
				if o := objOf(in, id); o != nil && isLocalVar(f, o) {
					return true
				}
			}
		}
		if id, isId := r.(*ast.Ident); isId {
			if o := objOf(in, id); o != nil && isLocalVar(f, o) {
				defs, _ := localDefs(in, f.Body, o)
				for _, d := range defs {
					if u, isU := unparen(d).(*ast.UnaryExpr); isU && u.Op == token.AND {
						if _, isLit := unparen(u.X).(*ast.CompositeLit); isLit {
							continue
						}
					}
					ok = false
				}
				if len(defs) > 0 {
					return true
				}
			}
		}
		ok = false
		return true
	})
	return ok && n > 0
}

// callableThroughInterface: some interface of the loaded program declares a method of fn's name that fn's receiver
// type implements (fn may then be reached by a dynamic call the static search does not see).
func callableThroughInterface(p *Prog, fn *types.Func) bool {
	r := recvNamed(fn)
	if r == nil {
		return false
	}
	for _, pk := range p.All {
		if pk.Types == nil {
			continue
		}
		sc := pk.Types.Scope()
		for _, name := range sc.Names() {
			tn, ok := sc.Lookup(name).(*types.TypeName)
			if !ok {
				continue
			}
			it, ok := tn.Type().Underlying().(*types.Interface)
			if !ok || it.NumMethods() == 0 {
				continue
			}
			has := false
			for i := 0; i < it.NumMethods(); i++ {
				if it.Method(i).Name() == fn.Name() {
					has = true
				}
			}
			if has && (types.Implements(r, it) || types.Implements(types.NewPointer(r), it)) {
				return true
			}
		}
	}
	return false
}

// bufferedMapElementOnce: the send is on the value variable of a range over a local map of channels; every channel
// stored into that map is made with capacity >= 1; the send is the only send on the variable in the loop body and not in
// an inner loop; and the range statement runs at most once per map (it is guarded by a compare-and-swap).
func bufferedMapElementOnce(p *Prog, op *ChanOp) (bool, string) {
	f := op.Func
	in := info(f)
	id, ok := unparen(op.Chan).(*ast.Ident)
	if !ok {
		return false, ""
	}
	vo := objOf(in, id)
	var rs *ast.RangeStmt
	for cur := p.Parent(op.Node); cur != nil; cur = p.Parent(cur) {
		if r, ok := cur.(*ast.RangeStmt); ok {
			if vid, ok := r.Value.(*ast.Ident); ok && objOf(in, vid) == vo {
				rs = r
			}
			break
		}
		if _, ok := cur.(*ast.ForStmt); ok {
			break
		}
		if _, ok := cur.(*ast.FuncLit); ok {
			break
		}
	}
	if rs == nil {
		return false, ""
	}
	mid, ok := unparen(rs.X).(*ast.Ident)
	if !ok {
		return false, ""
	}
	mo := objOf(in, mid)
	if _, isMap := in.TypeOf(mid).Underlying().(*types.Map); !isMap || mo == nil || !isLocalVar(f.Root(), mo) {
		return false, ""
	}
	// every store into the map is make(chan T, n>=1)
	stores, okAll := 0, true
	rin := info(f.Root())
	ast.Inspect(f.Root().Body, func(m ast.Node) bool {
		as, ok := m.(*ast.AssignStmt)
		if !ok || len(as.Lhs) != len(as.Rhs) {
			return true
		}
		for i, l := range as.Lhs {
			ix, ok := unparen(l).(*ast.IndexExpr)
			if !ok {
				continue
			}
			if bid, ok := unparen(ix.X).(*ast.Ident); !ok || objOf(rin, bid) != mo {
				continue
			}
			stores++
			for _, src := range resolveLocalExpr(rin, f.Root(), as.Rhs[i]) {
				cl, ok := unparen(src).(*ast.CallExpr)
				if !ok {
					okAll = false
					continue
				}
				if isMk, capc := makeChanCap(rin, cl); !isMk || capc != ">=1" {
					okAll = false
				}
			}
		}
		return true
	})
	if stores == 0 && okAll {
		// the map is built by a same-package helper: look at the stores into the map that helper returns
		defs, _ := localDefs(rin, f.Root().Body, mo)
		for _, d := range defs {
			dc, ok := unparen(d).(*ast.CallExpr)
			if !ok {
				okAll = false
				continue
			}
			cf := p.byObj[callee(rin, dc)]
			if cf == nil || cf.Pkg != f.Pkg || cf.Body == nil {
				okAll = false
				continue
			}
			cin := info(cf)
			var ret types.Object
			inspectNoLit(cf.Body, func(m ast.Node) bool {
				if r, ok := m.(*ast.ReturnStmt); ok && len(r.Results) == 1 {
					if rid, ok := unparen(r.Results[0]).(*ast.Ident); ok {
						ret = objOf(cin, rid)
					} else {
						okAll = false
					}
				}
				return true
			})
			inspectNoLit(cf.Body, func(m ast.Node) bool {
				as, ok := m.(*ast.AssignStmt)
				if !ok || len(as.Lhs) != len(as.Rhs) {
					return true
				}
				for i, l := range as.Lhs {
					ix, ok := unparen(l).(*ast.IndexExpr)
					if !ok {
						continue
					}
					if bid, ok := unparen(ix.X).(*ast.Ident); !ok || objOf(cin, bid) != ret || ret == nil {
						continue
					}
					stores++
					cl, ok := unparen(as.Rhs[i]).(*ast.CallExpr)
					if !ok {
						okAll = false
						continue
					}
					if isMk, capc := makeChanCap(cin, cl); !isMk || capc != ">=1" {
						okAll = false
					}
				}
				return true
			})
		}
	}
	if stores == 0 || !okAll {
		return false, ""
	}
	sends := 0
	inspectNoLit(rs.Body, func(m ast.Node) bool {
		if s, ok := m.(*ast.SendStmt); ok {
			if sid, ok := unparen(s.Chan).(*ast.Ident); ok && objOf(in, sid) == vo {
				sends++
			}
		}
		return true
	})
	if sends != 1 || !underCASGuard(p, f, rs) {
		return false, ""
	}
	return true, fmt.Sprintf("element of the local map %s: every channel stored in it is made with capacity >= 1, the range that sends runs at most once per map (compare-and-swap guard) and sends once per element", mid.Name)
}
