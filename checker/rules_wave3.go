package main

// Rules added after the third (held-out) wave of seeded faults.
//
//	R57 (strengthened) the tested move result is the one the move returned
//	R78 exclusive answer carries at most one flow
//	R79 probe loop visits every candidate
//	R80 expression engine is looked up per expression, never cached in a field
//	R81 retry attempts change only in Step
//	R82 a join's gate counter is written only by the gateway goroutine
//	R83 every announced flow is started
//	R37 (8),(9) tracer inbound channel unbuffered; terminate received only by the broadcaster

import (
	"fmt"
	"go/ast"
	"go/token"
	"go/types"
	"strings"
)

func init() {
	register(&Rule{ID: "R78", Title: "exclusive answer: the flowAction an exclusive gateway answers after a probe carries at most one sequence flow, taken from the front of the probe result", Min: 2, Run: ruleR78})
	register(&Rule{ID: "R79", Title: "probe completeness: the token evaluates every candidate flow of a probe; an error on one candidate does not end the loop", Min: 1, Run: ruleR79})
	register(&Rule{ID: "R80", Title: "engine per expression: the expression engine is looked up for each expression's language and never cached in a struct field", Min: 1, Run: ruleR80})
	register(&Rule{ID: "R81", Title: "retry attempts: the attempt counter of Retry changes only in Step", Min: 1, Run: ruleR81})
	register(&Rule{ID: "R82", Title: "gate counter ownership: the counter that gates a join's release is written only in the gateway's own goroutine (not by arriving tokens, atomically or otherwise)", Min: 1, Run: ruleR82})
	register(&Rule{ID: "R83", Title: "announced flows are started: after the FlowTrace that announces new flows, every path passes the loop that starts them", Min: 1, Run: ruleR83})
}

func ruleR78(c *Ctx) {
	p := c.P
	what := "an exclusive gateway sends a token down exactly one flow — the first true one in the gateway's order; the flows it answers with must therefore be a single element taken from the front of the probe result (an append loop that stops after the first element, an index [0], or a one-element literal)"
	reports := probeReportTypes(p)
	fa, _ := flowActionType(p)
	n := 0
	for _, f := range p.Funcs {
		if f.Obj == nil || f.Body == nil || recvNamed(f.Obj) == nil || recvNamed(f.Obj).Obj().Name() != "exclusiveGateway" {
			continue
		}
		in := info(f)
		// handler regions of the probe report in this function, or the whole body when the function takes the report as a parameter
		var regions [][]ast.Stmt
		for _, h := range msgHandlers(p, isIMessage) {
			if h.Func == f && handlesType(h, reports) {
				regions = append(regions, h.Body)
			}
		}
		if f.Decl != nil && f.Decl.Type.Params != nil {
			for _, fl := range f.Decl.Type.Params.List {
				if nt := namedOf(in.TypeOf(fl.Type)); nt != nil && reports[nt.Obj()] {
					regions = append(regions, f.Body.List)
				}
			}
		}
		for _, body := range regions {
			for _, st := range body {
				inspectNoLit(st, func(nd ast.Node) bool {
					cl, ok := nd.(*ast.CompositeLit)
					if !ok || fa == nil {
						return true
					}
					if nt := namedOf(in.TypeOf(cl)); nt == nil || nt.Obj() != fa.Obj() {
						return true
					}
					for _, el := range cl.Elts {
						kv, ok := el.(*ast.KeyValueExpr)
						if !ok {
							continue
						}
						if _, isSlice := in.TypeOf(kv.Value).Underlying().(*types.Slice); !isSlice {
							continue
						}
						if et, ok := in.TypeOf(kv.Value).Underlying().(*types.Slice); !ok || namedOf(et.Elem()) == nil || namedOf(et.Elem()).Obj().Name() != "SequenceFlow" {
							continue
						}
						n++
						okOne, why := atMostOneElement(p, f, in, kv.Value)
						c.Check(okOne, f, kv, "flows answered by the exclusive gateway", what, why)
					}
					return true
				})
			}
		}
	}
	if n == 0 {
		c.Missing("exclusive answer", "no flowAction answered by the exclusive gateway's probe-report handling was found")
	}
}

// atMostOneElement: the slice expression has at most one element by construction.
func atMostOneElement(p *Prog, f *FuncInfo, in *types.Info, e ast.Expr) (bool, string) {
	switch x := unparen(e).(type) {
	case *ast.CompositeLit:
		return len(x.Elts) <= 1, fmt.Sprintf("literal with %d element(s)", len(x.Elts))
	case *ast.SliceExpr:
		return false, "a sub-slice whose length is not evident"
	case *ast.Ident:
		v, ok := objOf(in, x).(*types.Var)
		if !ok {
			return false, "not a variable"
		}
		// every append to v sits in a loop whose body leaves the loop right after the append, or outside any loop once
		appends, bad := 0, ""
		inspectNoLit(f.Body, func(n ast.Node) bool {
			as, ok := n.(*ast.AssignStmt)
			if !ok || len(as.Lhs) != 1 || len(as.Rhs) != 1 {
				return true
			}
			if lid, ok := as.Lhs[0].(*ast.Ident); !ok || objOf(in, lid) != types.Object(v) {
				return true
			}
			call, ok := unparen(as.Rhs[0]).(*ast.CallExpr)
			if !ok {
				return true
			}
			if isBuiltin(in, call, "make") {
				if len(call.Args) >= 2 {
					if tv := in.Types[call.Args[1]]; tv.Value == nil || tv.Value.ExactString() != "0" {
						bad = "made with a non-zero length"
					}
				}
				return true
			}
			if !isBuiltin(in, call, "append") {
				bad = "assigned from " + exprString(as.Rhs[0])
				return true
			}
			appends++
			if len(call.Args) != 2 || call.Ellipsis != token.NoPos {
				bad = "append of more than one element"
				return true
			}
			// enclosing loop?
			var loop ast.Node
			for cur := p.Parent(as); cur != nil; cur = p.Parent(cur) {
				switch cur.(type) {
				case *ast.ForStmt, *ast.RangeStmt:
					loop = cur
				case *ast.CaseClause, *ast.CommClause, *ast.FuncLit, *ast.FuncDecl:
					cur = nil
				}
				if cur == nil || loop != nil {
					break
				}
			}
			if loop == nil {
				return true
			}
			// the statement after the append in the same block must leave the loop
			if blk, ok := p.Parent(as).(*ast.BlockStmt); ok {
				for i, st := range blk.List {
					if st == ast.Stmt(as) {
						if i+1 < len(blk.List) {
							switch y := blk.List[i+1].(type) {
							case *ast.BranchStmt:
								if y.Tok == token.BREAK {
									return true
								}
							case *ast.ReturnStmt:
								return true
							}
						}
						bad = "appended in a loop that goes on after the first element"
					}
				}
			}
			return true
		})
		if bad != "" {
			return false, x.Name + ": " + bad
		}
		if appends > 1 {
			return false, fmt.Sprintf("%s: %d append sites", x.Name, appends)
		}
		return true, x.Name + " receives at most one element (single append, loop left right after it)"
	}
	return false, "shape not recognised: " + exprString(e)
}

func ruleR79(c *Ctx) {
	p := c.P
	what := "a probe asks the token to evaluate every candidate flow and report all that are true; leaving the loop early (break / return on an evaluation error) hides later true conditions, so the gateway takes the default or reports 'no effective flow' although one exists"
	n := 0
	for _, f := range tokenRoots(p) {
		in := info(f)
		inspectNoLit(f.Body, func(nd ast.Node) bool {
			el, ok := elementLoop(in, nd)
			if !ok {
				return true
			}
			// the loop evaluates flows of a probe: its body calls a function of the token and the enclosing handler is for an action with a callback field
			rs, isRange := el.Stmt.(*ast.RangeStmt)
			var over ast.Expr
			if isRange {
				over = rs.X
			} else if fs, ok := el.Stmt.(*ast.ForStmt); ok {
				if be, ok := unparen(fs.Cond).(*ast.BinaryExpr); ok {
					if call, ok := unparen(be.Y).(*ast.CallExpr); ok && len(call.Args) == 1 {
						over = call.Args[0]
					}
				}
			}
			if over == nil {
				return true
			}
			s, ok := unparen(over).(*ast.SelectorExpr)
			if !ok {
				return true
			}
			nt := namedOf(in.TypeOf(s.X))
			if nt == nil || !hasMethod(nt, "action") {
				return true
			}
			st, ok := nt.Underlying().(*types.Struct)
			if !ok {
				return true
			}
			hasCallback := false
			for i := 0; i < st.NumFields(); i++ {
				if _, ok := st.Field(i).Type().Underlying().(*types.Signature); ok {
					hasCallback = true
				}
			}
			if !hasCallback {
				return true
			}
			n++
			leaves := ""
			inspectNoLit(el.Body, func(z ast.Node) bool {
				switch y := z.(type) {
				case *ast.BranchStmt:
					if y.Tok == token.BREAK || y.Tok == token.GOTO {
						// a break that belongs to an inner switch/select/loop does not leave this loop
						for cur := p.Parent(y); cur != nil && cur != ast.Node(el.Body); cur = p.Parent(cur) {
							switch cur.(type) {
							case *ast.SwitchStmt, *ast.TypeSwitchStmt, *ast.SelectStmt, *ast.ForStmt, *ast.RangeStmt:
								if y.Label == nil {
									return true
								}
							}
						}
						leaves = y.Tok.String() + " at " + p.Pos(y.Pos())
					}
				case *ast.ReturnStmt:
					leaves = "return at " + p.Pos(y.Pos())
				}
				return true
			})
			c.Check(leaves == "", f, el.Stmt, "loop over the candidate flows of a probe", what, ifElse(leaves == "", "no break / return / goto in the loop body", "the loop can be left early: "+leaves))
			return true
		})
	}
	if n == 0 {
		c.Missing("probe loop", "no loop over the candidate flows of a probing action was found in the token goroutine")
	}
}

func ruleR80(c *Ctx) {
	p := c.P
	what := "each expression names its own language (falling back to the definitions' default); an engine fetched for the first expression and kept in a field is then used for expressions in another language — a compile error at best, a silently different result when the text is valid in both"
	n := 0
	for _, f := range p.Funcs {
		if f.Pkg.PkgPath != pathBpmn || f.Body == nil {
			continue
		}
		in := info(f)
		inspectNoLit(f.Body, func(nd ast.Node) bool {
			call, ok := nd.(*ast.CallExpr)
			if !ok {
				return true
			}
			fn := callee(in, call)
			if fn == nil || fn.Name() != "GetEngine" || fn.Pkg() == nil || !strings.HasSuffix(fn.Pkg().Path(), "pkg/expression") {
				return true
			}
			n++
			stored := ""
			if as, ok := p.Parent(call).(*ast.AssignStmt); ok {
				for _, l := range as.Lhs {
					if fv := fieldOf(in, l); fv != nil {
						stored = fv.Name()
					}
				}
			}
			// guarded by a nil test of a field (lazy cache)
			if ifs := enclosingIfWhere(p, call, f.Body, func(cond ast.Expr, inThen bool) bool {
				be, ok := unparen(cond).(*ast.BinaryExpr)
				return ok && inThen && be.Op == token.EQL && isNilIdent(be.Y) && fieldOf(in, be.X) != nil
			}); ifs != nil && stored != "" {
				stored += " (lazily, under a nil test)"
			}
			c.Check(stored == "", f, call, "lookup of the expression engine", what, ifElse(stored == "", "the engine is used locally for this expression", "the engine is stored in field "+stored))
			return true
		})
	}
	if n == 0 {
		c.Missing("engine lookup", "no call of expression.GetEngine was found in the engine package")
	}
}

func ruleR81(c *Ctx) {
	p := c.P
	what := "the number of attempts made for one token only grows, by one per further attempt (Step); anything else that writes it (a Reset that restarts the count when the limit changes) lets a failing task be retried without bound"
	var fld *types.Var
	if pk := p.PkgByShort("bpmn"); pk != nil {
		if tn, ok := pk.Types.Scope().Lookup("Retry").(*types.TypeName); ok {
			if st, ok := tn.Type().Underlying().(*types.Struct); ok {
				for i := 0; i < st.NumFields(); i++ {
					if strings.HasPrefix(strings.ToLower(st.Field(i).Name()), "attempt") {
						fld = st.Field(i)
					}
				}
			}
		}
	}
	if fld == nil {
		c.Missing("Retry attempts field", "type Retry with an attempts field was not found")
		return
	}
	for _, f := range p.Funcs {
		if f.Pkg.PkgPath != pathBpmn || f.Body == nil {
			continue
		}
		in := info(f)
		inspectNoLit(f.Body, func(nd ast.Node) bool {
			var lhs []ast.Expr
			switch x := nd.(type) {
			case *ast.AssignStmt:
				lhs = x.Lhs
			case *ast.IncDecStmt:
				lhs = []ast.Expr{x.X}
			}
			for _, l := range lhs {
				if fieldOf(in, l) == fld {
					okSite := f.Obj != nil && f.Obj.Name() == "Step"
					c.Check(okSite, f, nd, "write of Retry."+fld.Name(), what, ifElse(okSite, "inside Step", "outside Step: in "+f.QName()))
				}
			}
			return true
		})
	}
}

func ruleR82(c *Ctx) {
	p := c.P
	what := "the number of arrivals a join has seen must be counted where the arrivals are taken out of the mailbox, in the gateway's goroutine; counted by the arriving tokens themselves (even atomically) the gateway can see the count of N before the N-th request is in its mailbox, release with fewer waiters than counted and strand the rest"
	// gate counters: integer fields of node types that are compared in a condition that controls a parked-loop release or a distributor call
	dist := distributorFuncs(p)
	gate := map[*types.Var]*FuncInfo{}
	for _, f := range p.Funcs {
		if f.Pkg.PkgPath != pathBpmn || f.Body == nil {
			continue
		}
		in := info(f)
		inspectNoLit(f.Body, func(nd ast.Node) bool {
			call, ok := nd.(*ast.CallExpr)
			if !ok {
				return true
			}
			fn := callee(in, call)
			if fn == nil || !dist[fn] {
				return true
			}
			for _, cnd := range controlConds(p, f, call) {
				ast.Inspect(cnd, func(z ast.Node) bool {
					if e, ok := z.(ast.Expr); ok {
						if fv := fieldOf(in, e); fv != nil {
							if b, ok := fv.Type().Underlying().(*types.Basic); ok && b.Info()&types.IsInteger != 0 {
								gate[fv] = f
							}
						}
						// atomic form: atomic.LoadInt32(&x.f)
						if c2, ok := e.(*ast.CallExpr); ok {
							if f2 := callee(in, c2); f2 != nil && f2.Pkg() != nil && f2.Pkg().Path() == "sync/atomic" && len(c2.Args) >= 1 {
								if u, ok := unparen(c2.Args[0]).(*ast.UnaryExpr); ok && u.Op == token.AND {
									if fv := fieldOf(in, u.X); fv != nil {
										gate[fv] = f
									}
								}
							}
						}
					}
					return true
				})
			}
			return true
		})
	}
	if len(gate) == 0 {
		c.Missing("gate counter", "no integer field compared in a condition that controls a join's release was found")
		return
	}
	// run trees of node goroutines
	inRun := map[*FuncInfo]bool{}
	for _, f := range p.Funcs {
		if f.Obj != nil && f.Obj.Name() == "run" && f.Pkg.PkgPath == pathBpmn {
			for t := range goroutineTree(p, f) {
				inRun[t] = true
			}
		}
	}
	for fv := range gate {
		for _, f := range p.Funcs {
			if f.Pkg.PkgPath != pathBpmn || f.Body == nil {
				continue
			}
			in := info(f)
			inspectNoLit(f.Body, func(nd ast.Node) bool {
				written := false
				switch x := nd.(type) {
				case *ast.AssignStmt:
					for _, l := range x.Lhs {
						if fieldOf(in, l) == fv {
							written = true
						}
					}
				case *ast.IncDecStmt:
					written = fieldOf(in, x.X) == fv
				case *ast.CallExpr:
					if f2 := callee(in, x); f2 != nil && f2.Pkg() != nil && f2.Pkg().Path() == "sync/atomic" && len(x.Args) >= 1 && (strings.HasPrefix(f2.Name(), "Add") || strings.HasPrefix(f2.Name(), "Store") || strings.HasPrefix(f2.Name(), "Swap") || strings.HasPrefix(f2.Name(), "CompareAndSwap")) {
						if u, ok := unparen(x.Args[0]).(*ast.UnaryExpr); ok && u.Op == token.AND && fieldOf(in, u.X) == fv {
							written = true
						}
					}
				}
				if !written {
					return true
				}
				okSite := inRun[f.Root()] || inRun[f] || isConstructorLike(f.Root())
				c.Check(okSite, f, nd, "write of gate counter "+fv.Name(), what, ifElse(okSite, "written in the gateway's goroutine (or its constructor)", "written in "+f.QName()+", which runs in the arriving token's goroutine"))
				return true
			})
		}
	}
}

func ruleR83(c *Ctx) {
	p := c.P
	what := "the FlowTrace tells every subscriber (the inclusive join's tracker among them) that new tokens exist; a path that announces them and then leaves without starting them leaves a join waiting for tokens that never come"
	n := 0
	for _, root := range tokenRoots(p) {
		in := info(root)
		g := p.Graph(root)
		// the slice of fork handlers: local of type []func(context.Context)
		isHandlers := func(e ast.Expr) bool {
			t := in.TypeOf(e)
			if t == nil {
				return false
			}
			sl, ok := t.Underlying().(*types.Slice)
			if !ok {
				return false
			}
			sig, ok := sl.Elem().Underlying().(*types.Signature)
			return ok && sig.Params().Len() == 1 && isContextType(sig.Params().At(0).Type())
		}
		starts := func(nd ast.Node) bool {
			// the range over the handlers (its operand is a node of the graph) or a call of one handler
			if rs, ok := nd.(*ast.RangeStmt); ok && isHandlers(rs.X) {
				return true
			}
			return exprMentionsAny(nd, func(z ast.Node) bool {
				if id, ok := z.(*ast.Ident); ok {
					if par, ok := p.Parent(id).(*ast.RangeStmt); ok && par.X == ast.Expr(id) && isHandlers(id) {
						return true
					}
				}
				return false
			})
		}
		for _, pt := range g.AllPoints() {
			if _, ok := nodeSendsTraceDirect(in, pt.Node(), "FlowTrace"); !ok {
				continue
			}
			n++
			// every path from the announcement to an exit, or back to the wait for the next action, starts the flows
			found, w := g.SearchB(pt, false, func(q Point, nd ast.Node) Action {
				if nd == nil {
					return Prune
				}
				if starts(nd) {
					return Prune
				}
				if _, isRet := nd.(*ast.ReturnStmt); isRet {
					return Found
				}
				if exprMentionsAny(nd, func(z ast.Node) bool {
					u, ok := z.(*ast.UnaryExpr)
					if !ok || u.Op != token.ARROW {
						return false
					}
					call, ok := unparen(u.X).(*ast.CallExpr)
					return ok && callee(in, call) != nil && callee(in, call).Name() == "NextAction"
				}) {
					return Found
				}
				return Continue
			}, nil)
			c.Check(!found, root, pt.Node(), "FlowTrace announcing new flows", what, ifElse(found, fmt.Sprintf("path from the announcement that does not start the announced flows: lines %v", g.Lines(w)), "every path from the announcement passes the loop over the fork handlers"))
		}
	}
	if n == 0 {
		c.Missing("FlowTrace announcement", "no Send(FlowTrace) in the token goroutine")
	}
}

// ---- R84..R87 ----

func init() {
	register(&Rule{ID: "R84", Title: "stored flows are started once: the flows a node created at construction (its boundary listeners) are started under the node's sync.Once, not on every activation", Min: 1, Run: ruleR84})
	register(&Rule{ID: "R85", Title: "tracker catch-up: the flow tracker gives up its initial lock only under a condition that depends on what it has seen in the trace stream, not merely on holding the lock", Min: 1, Run: ruleR85})
	register(&Rule{ID: "R86", Title: "re-arm on every outcome: once a gateway has consumed a probe report, every path to the end of the handler resets the state its request handler tests (also the path that reports 'no effective flow')", Min: 2, Run: ruleR86})
	register(&Rule{ID: "R87", Title: "configure before start: no field of an object is assigned after the call that starts the object's goroutine", Min: 3, Run: ruleR87})
}

func isFlowPtr(t types.Type) bool {
	if pt, ok := t.Underlying().(*types.Pointer); ok {
		if n := namedOf(pt.Elem()); n != nil && n.Obj().Name() == "flow" && n.Obj().Pkg() != nil && n.Obj().Pkg().Path() == pathBpmn {
			return true
		}
	}
	return false
}

func ruleR84(c *Ctx) {
	p := c.P
	what := "a flow object is a token with state (current node, id, retry); the listener flows a node builds once must be started once — starting the same objects again on a later activation runs two goroutines on one token and lets one event continue the exception flow twice"
	n := 0
	for _, f := range p.Funcs {
		if f.Pkg.PkgPath != pathBpmn || f.Body == nil {
			continue
		}
		in := info(f)
		inspectNoLit(f.Body, func(nd ast.Node) bool {
			call, ok := nd.(*ast.CallExpr)
			if !ok {
				return true
			}
			fn := callee(in, call)
			if fn == nil || fn.Name() != "Start" || !isMethod(fn, pathBpmn, "Start", "flow") {
				return true
			}
			s, ok := unparen(call.Fun).(*ast.SelectorExpr)
			if !ok {
				return true
			}
			// receiver is (a local copied from) an element of a struct field holding flows
			fromField := false
			if ix, ok := unparen(s.X).(*ast.IndexExpr); ok && fieldOf(in, ix.X) != nil {
				fromField = true
			}
			if id, ok := unparen(s.X).(*ast.Ident); ok {
				v := objOf(in, id)
				inspectNoLit(f.Body, func(z ast.Node) bool {
					switch y := z.(type) {
					case *ast.AssignStmt:
						for i, l := range y.Lhs {
							if lid, ok := l.(*ast.Ident); ok && objOf(in, lid) == v && i < len(y.Rhs) {
								if ix, ok := unparen(y.Rhs[i]).(*ast.IndexExpr); ok && fieldOf(in, ix.X) != nil {
									fromField = true
								}
							}
						}
					case *ast.RangeStmt:
						if vid, ok := y.Value.(*ast.Ident); ok && objOf(in, vid) == v && fieldOf(in, y.X) != nil {
							fromField = true
						}
					}
					return true
				})
			}
			if !fromField {
				return true
			}
			n++
			underOnce := false
			for cur := f; cur != nil; cur = cur.Parent {
				if cur.Lit == nil {
					break
				}
				if par, ok := p.Parent(cur.Lit).(*ast.CallExpr); ok && isSyncMethod(info(cur.Parent), par, "Once", "Do") {
					underOnce = true
				}
			}
			c.Check(underOnce, f, call, "start of a flow kept in a field", what, ifElse(underOnce, "inside the literal passed to sync.Once.Do", "not under sync.Once: runs on every call of "+f.Root().QName()))
			return true
		})
	}
	if n == 0 {
		c.Missing("stored flows", "no Start of a flow kept in a struct field was found")
	}
}

func ruleR85(c *Ctx) {
	p := c.P
	what := "the tracker starts locked so that the join cannot read its picture of the cohort before the tracker has seen the flow into the join; an unlock that only asks 'do I hold the lock' releases it on the first idle moment, the join reads an empty cohort and fires at once"
	n := 0
	for _, f := range p.Funcs {
		if f.Obj == nil || f.Obj.Name() != "run" || recvNamed(f.Obj) == nil || recvNamed(f.Obj).Obj().Name() != "flowTracker" || f.Body == nil {
			continue
		}
		in := info(f)
		// variables assigned from the trace handler's results
		fromHandler := map[types.Object]bool{}
		var heldFlag types.Object
		inspectNoLit(f.Body, func(nd ast.Node) bool {
			as, ok := nd.(*ast.AssignStmt)
			if !ok || len(as.Rhs) != 1 {
				return true
			}
			call, ok := unparen(as.Rhs[0]).(*ast.CallExpr)
			if !ok {
				return true
			}
			cf := p.byObj[callee(in, call)]
			if cf == nil || cf.Obj == nil || recvNamed(cf.Obj) == nil || recvNamed(cf.Obj).Obj() != recvNamed(f.Obj).Obj() {
				return true
			}
			for _, l := range as.Lhs {
				if id, ok := l.(*ast.Ident); ok {
					fromHandler[objOf(in, id)] = true
				}
			}
			return true
		})
		inspectNoLit(f.Body, func(nd ast.Node) bool {
			call, ok := nd.(*ast.CallExpr)
			if !ok {
				return true
			}
			_, k := mutexCall(in, call)
			if k != "Unlock" {
				return true
			}
			// unlocks on the way out (followed by return in the same block) are clean-up, not the catch-up release
			if blk, ok := p.Parent(p.Parent(call)).(*ast.BlockStmt); ok {
				if leavesBlock(blk) {
					// only when the block's last statement is a return
					if _, isRet := blk.List[len(blk.List)-1].(*ast.ReturnStmt); isRet {
						return true
					}
				}
			}
			// an unlock from which no path comes back to a receive of traces is clean-up on the way out
			g := p.Graph(f)
			var node ast.Node = call
			for node != nil {
				if _, ok := g.PointOf(node); ok {
					break
				}
				node = p.Parent(node)
			}
			if node == nil {
				return true
			}
			upt, _ := g.PointOf(node)
			goesOn, _ := g.Search(upt, false, func(q Point, n2 ast.Node) Action {
				if n2 == nil {
					return Found // parks in a select again
				}
				if _, isRet := n2.(*ast.ReturnStmt); isRet {
					return Prune
				}
				if exprMentionsAny(n2, func(z ast.Node) bool {
					u, ok := z.(*ast.UnaryExpr)
					if !ok || u.Op != token.ARROW {
						return false
					}
					e, isChan := chanElem(in.TypeOf(u.X))
					return isChan && isITrace(e)
				}) {
					return Found
				}
				return Continue
			})
			if !goesOn {
				return true
			}
			n++
			dep := false
			var names []string
			for _, cnd := range controlConds(p, f, call) {
				ast.Inspect(cnd, func(z ast.Node) bool {
					if id, ok := z.(*ast.Ident); ok {
						o := objOf(in, id)
						if fromHandler[o] {
							names = append(names, id.Name)
						}
					}
					return true
				})
			}
			// the held flag is the one assigned a constant right after the unlock / tested alone everywhere
			_ = heldFlag
			distinct := map[string]bool{}
			for _, nm := range names {
				distinct[nm] = true
			}
			dep = len(distinct) >= 2
			c.Check(dep, f, call, "release of the tracker's lock after catching up", what, fmt.Sprintf("controlling conditions mention these results of the trace handler: %v (the held-flag alone is not enough)", sortedKeys(distinct)))
			return true
		})
	}
	if n == 0 {
		c.Missing("tracker catch-up release", "no Unlock outside an exit path was found in flowTracker.run")
	}
}

func ruleR86(c *Ctx) {
	p := c.P
	what := "after a probe report has been consumed the gateway must be able to serve the next token whatever the outcome was; a path that reports 'no effective sequence flow' and returns to the loop without resetting the activation state leaves the gateway 'synchronized' for ever, and every later token is parked silently"
	reports := probeReportTypes(p)
	handlers := msgHandlers(p, isIMessage)
	for _, h := range handlers {
		if !handlesType(h, reports) || len(h.Body) == 0 {
			continue
		}
		f := h.Func
		in := info(f)
		// fields the request handlers of the same function test in a condition
		tested := map[*types.Var]bool{}
		for _, h2 := range handlers {
			if h2.Func != f || handlesType(h2, reports) {
				continue
			}
			for _, st := range h2.Body {
				inspectNoLit(st, func(nd ast.Node) bool {
					if ifs, ok := nd.(*ast.IfStmt); ok {
						ast.Inspect(ifs.Cond, func(z ast.Node) bool {
							if e, ok := z.(ast.Expr); ok {
								if fv := fieldOf(in, e); fv != nil {
									tested[fv] = true
								}
							}
							return true
						})
					}
					return true
				})
			}
		}
		analyse := func(f *FuncInfo, hbody []ast.Stmt) bool {
			in := info(f)
			// resets in the report handler: assignments of a constant / nil to a tested field
			type reset struct {
				fv *types.Var
				at *ast.AssignStmt
			}
			var resets []reset
			for _, st := range hbody {
				inspectNoLit(st, func(nd ast.Node) bool {
					as, ok := nd.(*ast.AssignStmt)
					if !ok || len(as.Lhs) != 1 || len(as.Rhs) != 1 {
						return true
					}
					fv := fieldOf(in, as.Lhs[0])
					if fv == nil || !tested[fv] {
						return true
					}
					if isNilIdent(as.Rhs[0]) || in.Types[as.Rhs[0]].Value != nil {
						resets = append(resets, reset{fv, as})
					}
					return true
				})
			}
			if len(resets) == 0 {
				return false
			}
			g := p.Graph(f)
			region := regionOfStmts(hbody)
			// start: the statement that consumes the report (clears the probing slot), else the handler entry
			var start ast.Node
			for _, st := range hbody {
				inspectNoLit(st, func(nd ast.Node) bool {
					if as, ok := nd.(*ast.AssignStmt); ok && len(as.Lhs) == 1 && len(as.Rhs) == 1 && isNilIdent(as.Rhs[0]) {
						if fv := fieldOf(in, as.Lhs[0]); fv != nil && replySlotKind(fv.Type()) != "" && start == nil {
							start = as
						}
					}
					if call, ok := nd.(*ast.CallExpr); ok && isBuiltin(in, call, "delete") && len(call.Args) == 2 && start == nil {
						if fv := fieldOf(in, call.Args[0]); fv != nil && replySlotKind(fv.Type()) != "" {
							start = p.Parent(call)
						}
					}
					return true
				})
			}
			if start == nil {
				return false
			}
			spt, ok := g.PointOf(start)
			if !ok {
				return false
			}
			seen := map[*types.Var]bool{}
			for _, r := range resets {
				if seen[r.fv] {
					continue
				}
				seen[r.fv] = true
				fv := r.fv
				bad := g.RegionPaths(spt, region, func(nd ast.Node) bool {
					return exprMentions(nd, func(z ast.Node) bool {
						as, ok := z.(*ast.AssignStmt)
						return ok && len(as.Lhs) == 1 && fieldOf(in, as.Lhs[0]) == fv
					})
				})
				c.Check(len(bad) == 0, f, r.at, "reset of "+fv.Name()+" after a consumed probe report", what, ifElse(len(bad) == 0, "every path from the consumption of the report to the end of the handler assigns "+fv.Name(), "a path leaves the handler without resetting "+fv.Name()+": "+witnessLines(g, bad[:min(1, len(bad))])))
			}
			return true
		}
		if !analyse(f, h.Body) {
			// the handling was moved into a helper method: its body is the handler
			for _, st := range h.Body {
				for _, cl := range callsIn(st) {
					if cf := p.byObj[callee(in, cl)]; cf != nil && cf.Pkg == f.Pkg && cf.Body != nil && cf.Obj != nil && f.Root().Obj != nil && recvNamed(cf.Obj) != nil && recvNamed(cf.Obj) == recvNamed(f.Root().Obj) {
						analyse(cf, cf.Body.List)
					}
				}
			}
		}
	}
}

func ruleR87(c *Ctx) {
	p := c.P
	what := "the goroutine that a Start-like method launches reads the object's fields; a field assigned after that call may be read before the assignment (the new token waits on a nil termination channel and can never be withdrawn) — and it is a data race"
	// starter methods: methods of engine types whose body launches a goroutine
	starters := map[*types.Func]bool{}
	for _, f := range p.Funcs {
		if f.Obj == nil || f.Body == nil || f.Pkg.PkgPath != pathBpmn || recvNamed(f.Obj) == nil {
			continue
		}
		hasGo := false
		inspectNoLit(f.Body, func(nd ast.Node) bool {
			if _, ok := nd.(*ast.GoStmt); ok {
				hasGo = true
			}
			return true
		})
		if hasGo && (f.Obj.Name() == "Start" || f.Obj.Name() == "start") {
			starters[f.Obj] = true
		}
	}
	for _, f := range p.Funcs {
		if f.Pkg.PkgPath != pathBpmn || f.Body == nil {
			continue
		}
		in := info(f)
		g := p.Graph(f)
		inspectNoLit(f.Body, func(nd ast.Node) bool {
			call, ok := nd.(*ast.CallExpr)
			if !ok {
				return true
			}
			fn := callee(in, call)
			if fn == nil || !starters[fn] {
				return true
			}
			s, ok := unparen(call.Fun).(*ast.SelectorExpr)
			if !ok {
				return true
			}
			rid, ok := unparen(s.X).(*ast.Ident)
			if !ok {
				return true
			}
			recv := objOf(in, rid)
			var node ast.Node = call
			for node != nil {
				if _, ok := g.PointOf(node); ok {
					break
				}
				node = p.Parent(node)
			}
			if node == nil {
				return true
			}
			pt, _ := g.PointOf(node)
			late := ""
			g.Search(pt, false, func(q Point, n2 ast.Node) Action {
				if n2 == nil {
					return Prune
				}
				inspectNoLit(n2, func(z ast.Node) bool {
					if as, ok := z.(*ast.AssignStmt); ok {
						for _, l := range as.Lhs {
							if sel, ok := unparen(l).(*ast.SelectorExpr); ok {
								if id, ok := unparen(sel.X).(*ast.Ident); ok && objOf(in, id) == recv && late == "" {
									late = sel.Sel.Name + " at " + p.Pos(as.Pos())
								}
							}
						}
					}
					return true
				})
				if late != "" {
					return Found
				}
				// a re-definition of the receiver variable ends the region (next loop iteration)
				return Continue
			})
			c.Check(late == "", f, call, "start of "+rid.Name, what, ifElse(late == "", "no field of "+rid.Name+" is assigned after it was started", "field "+late+" is assigned after the start"))
			return true
		})
	}
}
