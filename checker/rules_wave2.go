package main

// Rules added after the second (held-out) wave of seeded faults:
//
//	R52 probed decision is final        (C04, C05)
//	R53 one-shot reply slot is cleared  (C04, C05)
//	R54 join compares cohort membership (C05)
//	R55 retry limit is taken from the handler's answer, every attempt is counted (C08)
//	R56 per-request state is not shared between requests (C08, C07)

import (
	"fmt"
	"go/ast"
	"go/token"
	"go/types"
	"sort"
	"strings"

	"verif/checker/internal/xcfg"
)

func init() {
	register(&Rule{ID: "R52", Title: "probed decision is final: every flowAction answered from a probe-report handler marks its flows unconditional, so the token does not evaluate the chosen condition a second time", Min: 3, Run: ruleR52})
	register(&Rule{ID: "R53", Title: "one-shot reply slot: a reply channel fetched from a gateway's probing slot is cleared from the slot on every path that answers it", Min: 3, Run: ruleR53})
	register(&Rule{ID: "R54", Title: "join compares membership: the inclusive join's decision to synchronise depends on the identities of the arrived and the awaited tokens, not only on their numbers", Min: 1, Run: ruleR54})
	register(&Rule{ID: "R55", Title: "retry accounting: the retry decision is made against the limit of the handler's answer and every further attempt is counted", Min: 2, Run: ruleR55})
	register(&Rule{ID: "R56", Title: "per-request state: a goroutine launched per message does not share mutable state declared outside the message loop with the goroutines of other requests", Min: 3, Run: ruleR56})
}

// probeReportTypes returns the message types that are sent from inside a
// function literal stored in a field of an action literal (the probe report).
func probeReportTypes(p *Prog) map[*types.TypeName]bool {
	out := map[*types.TypeName]bool{}
	for _, f := range p.Funcs {
		if f.Pkg.PkgPath != pathBpmn {
			continue
		}
		in := info(f)
		ast.Inspect(f.Body, func(n ast.Node) bool {
			cl, ok := n.(*ast.CompositeLit)
			if !ok {
				return true
			}
			nt := namedOf(in.TypeOf(cl))
			if nt == nil || !hasMethod(nt, "action") {
				return true
			}
			for _, el := range cl.Elts {
				kv, ok := el.(*ast.KeyValueExpr)
				if !ok {
					continue
				}
				fl, ok := kv.Value.(*ast.FuncLit)
				if !ok {
					continue
				}
				ast.Inspect(fl.Body, func(z ast.Node) bool {
					ss, ok := z.(*ast.SendStmt)
					if !ok || !isMailboxChan(in.TypeOf(ss.Chan)) {
						return true
					}
					if mt := namedOf(in.TypeOf(ss.Value)); mt != nil {
						out[mt.Obj()] = true
					}
					return true
				})
			}
			return true
		})
	}
	return out
}

func handlesType(h tsClause, set map[*types.TypeName]bool) bool {
	for _, t := range h.Types {
		if n := namedOf(t); n != nil && set[n.Obj()] {
			return true
		}
	}
	return false
}

// flowActionType finds the action type that carries the list of flows that
// must not be evaluated again.
func flowActionType(p *Prog) (*types.Named, string) {
	pk := p.PkgByShort("bpmn")
	if pk == nil {
		return nil, ""
	}
	sc := pk.Types.Scope()
	for _, nm := range sc.Names() {
		tn, ok := sc.Lookup(nm).(*types.TypeName)
		if !ok {
			continue
		}
		n, ok := tn.Type().(*types.Named)
		if !ok || !hasMethod(n, "action") {
			continue
		}
		st, ok := n.Underlying().(*types.Struct)
		if !ok {
			continue
		}
		for i := 0; i < st.NumFields(); i++ {
			if strings.HasPrefix(strings.ToLower(st.Field(i).Name()), "unconditional") {
				return n, st.Field(i).Name()
			}
		}
	}
	return nil, ""
}

func ruleR52(c *Ctx) {
	p := c.P
	reports := probeReportTypes(p)
	fa, fld := flowActionType(p)
	if fa == nil || len(reports) == 0 {
		c.Missing("probe report / flow action types", "no probe-report message type or no action type with an unconditional-flows field was found")
		return
	}
	what := "a token that is answered after its probe has been evaluated must be told that the chosen flows are unconditional (" + fa.Obj().Name() + "." + fld + "); otherwise it evaluates the condition a second time against newer data and can take no flow at all"
	seenFn := map[*FuncInfo]bool{}
	var visitBody func(owner *FuncInfo, origin string, body ast.Node, depth int)
	visitBody = func(owner *FuncInfo, origin string, body ast.Node, depth int) {
		in := info(owner)
		ast.Inspect(body, func(n ast.Node) bool {
			switch x := n.(type) {
			case *ast.CompositeLit:
				if nt := namedOf(in.TypeOf(x)); nt != nil && nt.Obj() == fa.Obj() {
					has := false
					for _, el := range x.Elts {
						if kv, ok := el.(*ast.KeyValueExpr); ok {
							if id, ok := kv.Key.(*ast.Ident); ok && id.Name == fld && !isNilIdent(kv.Value) {
								has = true
							}
						}
					}
					c.Check(has, owner, x, "flowAction answered after a probe ("+origin+")", what, fmt.Sprintf("literal sets %s: %v", fld, has))
				}
			case *ast.CallExpr:
				if depth >= 3 {
					return true
				}
				// helpers the handler calls (and theirs): any of them may build the action that is answered
				if cf := p.byObj[callee(in, x)]; cf != nil && cf.Pkg.PkgPath == pathBpmn && cf.Body != nil && !seenFn[cf] {
					seenFn[cf] = true
					visitBody(cf, "via "+cf.QName(), cf.Body, depth+1)
				}
			}
			return true
		})
	}
	for _, h := range msgHandlers(p, isIMessage) {
		if !handlesType(h, reports) {
			continue
		}
		for _, st := range h.Body {
			visitBody(h.Func, "handler of the probe report", st, 0)
		}
	}
}

// ---- R53 ----

// replySlotField: a struct field whose type is *chan IAction or a map with such values.
func replySlotKind(t types.Type) string {
	isPtrReply := func(t types.Type) bool {
		if pt, ok := t.Underlying().(*types.Pointer); ok {
			return isReplyChan(pt.Elem())
		}
		return false
	}
	if isPtrReply(t) {
		return "slot"
	}
	if m, ok := t.Underlying().(*types.Map); ok && (isPtrReply(m.Elem()) || isReplyChan(m.Elem())) {
		return "map"
	}
	return ""
}

func ruleR53(c *Ctx) {
	p := c.P
	_ = probeReportTypes
	dist := distributorFuncs(p)
	what := "once the reply channel kept in the gateway's probing slot has been answered, the slot must be cleared (delete / nil) on that path; a stale entry makes the gateway answer an already consumed channel when the same token comes back, and that token waits forever"
	handlers := msgHandlers(p, isIMessage)
	for _, f := range p.Funcs {
		if f.Pkg.PkgPath != pathBpmn || f.Body == nil {
			continue
		}
		in := info(f)
		g := p.Graph(f)
		// fetches of the slot
		type fetch struct {
			at   ast.Node
			fld  *types.Var
			v    *types.Var
			kind string
		}
		var fetches []fetch
		{
			inspectNoLit(f.Body, func(n ast.Node) bool {
				as, ok := n.(*ast.AssignStmt)
				if !ok || len(as.Rhs) != 1 || as.Tok != token.DEFINE {
					return true
				}
				rhs := unparen(as.Rhs[0])
				var fe ast.Expr
				if ix, ok := rhs.(*ast.IndexExpr); ok {
					fe = ix.X
				} else {
					fe = rhs
				}
				fv := fieldOf(in, fe)
				if fv == nil {
					return true
				}
				k := replySlotKind(fv.Type())
				if k == "" || (k == "map") != (fe != rhs) {
					return true
				}
				v, _ := objOf(in, as.Lhs[0]).(*types.Var)
				if v != nil {
					fetches = append(fetches, fetch{as, fv, v, k})
				}
				return true
			})
		}
		for _, ft := range fetches {
			// region: the innermost message-handler body around the fetch, else the whole function
			body := f.Body.List
			for _, h := range handlers {
				if h.Func == f && len(h.Body) > 0 && regionOfStmts(h.Body).Contains(ft.at) && regionOfStmts(h.Body).End-regionOfStmts(h.Body).Pos < regionOfStmts(body).End-regionOfStmts(body).Pos {
					body = h.Body
				}
			}
			region := regionOfStmts(body)
			fpt, ok := g.PointOf(ft.at)
			if !ok {
				// the fetch is the init statement of an if: use the if's first node
				if par, ok2 := p.Parent(ft.at).(*ast.IfStmt); ok2 {
					fpt, ok = g.PointOf(par.Init)
				}
				if !ok {
					c.Bad(f, ft.at, "fetch of "+ft.fld.Name(), what, "the fetch is not a node of the control-flow graph (undecided)")
					continue
				}
			}
			isClear := func(n ast.Node) bool {
				return exprMentions(n, func(z ast.Node) bool {
					switch x := z.(type) {
					case *ast.CallExpr:
						return isBuiltin(in, x, "delete") && len(x.Args) == 2 && fieldOf(in, x.Args[0]) == ft.fld
					case *ast.AssignStmt:
						for i, l := range x.Lhs {
							if fieldOf(in, l) == ft.fld && i < len(x.Rhs) && isNilIdent(x.Rhs[i]) {
								return true
							}
						}
					}
					return false
				})
			}
			isAnswer := func(n ast.Node) bool {
				return exprMentions(n, func(z ast.Node) bool {
					switch x := z.(type) {
					case *ast.SendStmt:
						if id := rootIdent(x.Chan); id != nil && objOf(in, id) == types.Object(ft.v) {
							return true
						}
					case *ast.CallExpr:
						if fn := callee(in, x); fn != nil && dist[fn] {
							return true
						}
					}
					return false
				})
			}
			// answers in the region
			var answers []ast.Node
			for _, st := range body {
				inspectNoLit(st, func(n ast.Node) bool {
					switch n.(type) {
					case *ast.SendStmt, *ast.ExprStmt:
						if isAnswer(n) {
							answers = append(answers, n)
							return false
						}
					}
					return true
				})
			}
			within := g.WithinRegion(region)
			for _, a := range answers {
				apt, ok := g.PointOf(a)
				if !ok {
					continue
				}
				// (a) every path fetch -> answer passes a clear
				unclearedBefore, w := g.SearchB(fpt, false, func(pt Point, n ast.Node) Action {
					if n == nil {
						return Prune
					}
					if n == a {
						return Found
					}
					if isClear(n) {
						return Prune
					}
					return Continue
				}, within)
				okAll := !unclearedBefore
				wit := "every path from the fetch to this answer passes the clearing of " + ft.fld.Name()
				if unclearedBefore {
					// (b) every path answer -> end of the handler passes a clear
					bad := g.RegionPaths(apt, region, func(n ast.Node) bool { return n != a && isClear(n) })
					okAll = len(bad) == 0
					if okAll {
						wit = "every path from this answer to the end of the handler clears " + ft.fld.Name()
					} else {
						wit = fmt.Sprintf("path fetch→answer without clearing: lines %v; path answer→end of handler without clearing: lines %v", g.Lines(w), g.Lines(bad[0]))
					}
				}
				c.Check(okAll, f, a, "answer of the channel fetched from "+ft.fld.Name(), what, wit)
			}
		}
	}
}

// ---- R54 ----

// contentTaint computes, for the body of fn, which struct fields' *contents*
// (elements, not lengths) each expression depends on, including control
// dependence of assignments.
type taintEnv struct {
	p     *Prog
	f     *FuncInfo
	in    *types.Info
	vars  map[types.Object]map[*types.Var]bool
	depth int
}

func unionInto(dst map[*types.Var]bool, src map[*types.Var]bool) bool {
	ch := false
	for k := range src {
		if !dst[k] {
			dst[k] = true
			ch = true
		}
	}
	return ch
}

func (te *taintEnv) expr(e ast.Node) map[*types.Var]bool {
	out := map[*types.Var]bool{}
	if e == nil {
		return out
	}
	var walk func(n ast.Node)
	walk = func(n ast.Node) {
		switch x := n.(type) {
		case nil:
			return
		case *ast.CallExpr:
			if isBuiltin(te.in, x, "len") || isBuiltin(te.in, x, "cap") {
				return // the length says nothing about the identities
			}
			for _, a := range x.Args {
				walk(a)
			}
			if s, ok := unparen(x.Fun).(*ast.SelectorExpr); ok {
				walk(s.X)
			}
			if te.depth < 3 {
				if cf := te.p.byObj[callee(te.in, x)]; cf != nil && cf.Body != nil && cf.Pkg.PkgPath == te.f.Pkg.PkgPath {
					unionInto(out, returnTaint(te.p, cf, te.depth+1))
				}
			}
			return
		case *ast.SelectorExpr:
			if fv := fieldOf(te.in, x); fv != nil {
				out[fv] = true
			}
			walk(x.X)
			return
		case *ast.Ident:
			if o := objOf(te.in, x); o != nil {
				unionInto(out, te.vars[o])
			}
			return
		case *ast.FuncLit:
			return
		}
		ast.Inspect(n, func(z ast.Node) bool {
			if z == n || z == nil {
				return true
			}
			walk(z)
			return false
		})
	}
	walk(e)
	return out
}

// controlConds returns the conditions an AST node is control dependent on
// (enclosing if / for / switch conditions, range operands that bind a value,
// and earlier guard clauses of the enclosing blocks).
func controlConds(p *Prog, f *FuncInfo, n ast.Node) []ast.Node {
	var conds []ast.Node
	var child ast.Node = n
	for cur := p.Parent(n); cur != nil; cur = p.Parent(cur) {
		switch x := cur.(type) {
		case *ast.FuncLit, *ast.FuncDecl:
			return conds
		case *ast.IfStmt:
			if child != x.Init && child != ast.Node(x.Cond) {
				conds = append(conds, x.Cond)
			}
		case *ast.ForStmt:
			if x.Cond != nil && child == ast.Node(x.Body) {
				conds = append(conds, x.Cond)
			}
		case *ast.RangeStmt:
			if child == ast.Node(x.Body) && x.Value != nil {
				// iterating over the elements; the element variable carries the contents
			}
		case *ast.SwitchStmt:
			if x.Tag != nil {
				conds = append(conds, x.Tag)
			}
		case *ast.CaseClause:
			for _, e := range x.List {
				conds = append(conds, e)
			}
		case *ast.BlockStmt:
			// earlier guard clauses: if c { return|continue|break|goto }
			for _, st := range x.List {
				if st.End() > child.Pos() {
					break
				}
				if ifs, ok := st.(*ast.IfStmt); ok && leavesBlock(ifs.Body) {
					conds = append(conds, ifs.Cond)
				}
			}
		}
		child = cur
	}
	return conds
}

func leavesBlock(b *ast.BlockStmt) bool {
	if b == nil || len(b.List) == 0 {
		return false
	}
	switch x := b.List[len(b.List)-1].(type) {
	case *ast.ReturnStmt, *ast.BranchStmt:
		return true
	case *ast.ExprStmt:
		// panic(...) leaves as well
		if call, ok := x.X.(*ast.CallExpr); ok {
			if id, ok := call.Fun.(*ast.Ident); ok && id.Name == "panic" && id.Obj == nil {
				return true
			}
		}
	}
	return false
}

func newTaint(p *Prog, f *FuncInfo, depth int) *taintEnv {
	te := &taintEnv{p: p, f: f, in: info(f), vars: map[types.Object]map[*types.Var]bool{}, depth: depth}
	add := func(o types.Object, t map[*types.Var]bool) bool {
		if o == nil {
			return false
		}
		if te.vars[o] == nil {
			te.vars[o] = map[*types.Var]bool{}
		}
		return unionInto(te.vars[o], t)
	}
	ctl := func(n ast.Node) map[*types.Var]bool {
		t := map[*types.Var]bool{}
		for _, cnd := range controlConds(p, f, n) {
			unionInto(t, te.expr(cnd))
		}
		return t
	}
	for iter := 0; iter < 8; iter++ {
		changed := false
		inspectNoLit(f.Body, func(n ast.Node) bool {
			switch x := n.(type) {
			case *ast.AssignStmt:
				for i, l := range x.Lhs {
					id, ok := unparen(l).(*ast.Ident)
					if !ok {
						// element / field store into a local container: taint the container
						if r := rootIdent(l); r != nil {
							if _, isVar := objOf(te.in, r).(*types.Var); isVar && fieldOf(te.in, l) == nil {
								id = r
							}
						}
						if id == nil {
							continue
						}
					}
					t := ctl(x)
					if len(x.Rhs) == len(x.Lhs) {
						unionInto(t, te.expr(x.Rhs[i]))
					} else {
						for _, r := range x.Rhs {
							unionInto(t, te.expr(r))
						}
					}
					if x.Tok != token.ASSIGN && x.Tok != token.DEFINE {
						unionInto(t, te.expr(l))
					}
					if add(objOf(te.in, id), t) {
						changed = true
					}
				}
			case *ast.IncDecStmt:
				if id, ok := unparen(x.X).(*ast.Ident); ok {
					if add(objOf(te.in, id), ctl(x)) {
						changed = true
					}
				}
			case *ast.RangeStmt:
				if x.Value != nil {
					if id, ok := x.Value.(*ast.Ident); ok {
						t := te.expr(x.X)
						unionInto(t, ctl(x))
						if add(objOf(te.in, id), t) {
							changed = true
						}
					}
				}
				if x.Key != nil {
					if _, isMap := te.in.TypeOf(x.X).Underlying().(*types.Map); isMap {
						if id, ok := x.Key.(*ast.Ident); ok {
							if add(objOf(te.in, id), te.expr(x.X)) {
								changed = true
							}
						}
					}
				}
			case *ast.ValueSpec:
				for i, nm := range x.Names {
					if i < len(x.Values) {
						if add(objOf(te.in, nm), te.expr(x.Values[i])) {
							changed = true
						}
					}
				}
			}
			return true
		})
		if !changed {
			break
		}
	}
	return te
}

var returnTaintMemo = map[*FuncInfo]map[*types.Var]bool{}

func returnTaint(p *Prog, f *FuncInfo, depth int) map[*types.Var]bool {
	if t, ok := returnTaintMemo[f]; ok {
		return t
	}
	returnTaintMemo[f] = map[*types.Var]bool{}
	te := newTaint(p, f, depth)
	out := map[*types.Var]bool{}
	inspectNoLit(f.Body, func(n ast.Node) bool {
		if rs, ok := n.(*ast.ReturnStmt); ok {
			for _, r := range rs.Results {
				unionInto(out, te.expr(r))
			}
			for _, cnd := range controlConds(p, f, rs) {
				unionInto(out, te.expr(cnd))
			}
		}
		return true
	})
	// named results
	if f.Decl != nil && f.Decl.Type.Results != nil {
		for _, fl := range f.Decl.Type.Results.List {
			for _, nm := range fl.Names {
				unionInto(out, te.vars[info(f).Defs[nm]])
			}
		}
	}
	returnTaintMemo[f] = out
	return out
}

func ruleR54(c *Ctx) {
	p := c.P
	returnTaintMemo = map[*FuncInfo]map[*types.Var]bool{}
	what := "the join may synchronise only when every awaited token of the cohort is among the arrived ones; a decision that looks only at how many tokens arrived lets a token of another cohort (or a token that came round a loop) stand in for one that is still on its way"
	// slots: awaited = field assigned from the tracker's cohort query; arrived = id-slice field of the same struct that is appended to
	var awaited, arrived *types.Var
	var owner *types.Named
	for _, f := range p.Funcs {
		if f.Pkg.PkgPath != pathBpmn {
			continue
		}
		in := info(f)
		inspectNoLit(f.Body, func(n ast.Node) bool {
			as, ok := n.(*ast.AssignStmt)
			if !ok || len(as.Lhs) != 1 || len(as.Rhs) != 1 {
				return true
			}
			call, ok := unparen(as.Rhs[0]).(*ast.CallExpr)
			if !ok {
				return true
			}
			fn := callee(in, call)
			if fn == nil || fn.Name() != "activeFlowsInCohort" {
				return true
			}
			if fv := fieldOf(in, as.Lhs[0]); fv != nil {
				awaited = fv
				if s, ok := unparen(as.Lhs[0]).(*ast.SelectorExpr); ok {
					owner = namedOf(in.TypeOf(s.X))
				}
			}
			return true
		})
	}
	if awaited == nil || owner == nil {
		c.Missing("awaited-cohort field", "no field assigned from the flow tracker's cohort query was found")
		return
	}
	st, _ := owner.Underlying().(*types.Struct)
	for _, f := range p.Funcs {
		in := info(f)
		inspectNoLit(f.Body, func(n ast.Node) bool {
			as, ok := n.(*ast.AssignStmt)
			if !ok || len(as.Lhs) != 1 || len(as.Rhs) != 1 {
				return true
			}
			fv := fieldOf(in, as.Lhs[0])
			if fv == nil || fv == awaited || !types.Identical(fv.Type(), awaited.Type()) {
				return true
			}
			if call, ok := unparen(as.Rhs[0]).(*ast.CallExpr); ok && isBuiltin(in, call, "append") {
				for i := 0; st != nil && i < st.NumFields(); i++ {
					if st.Field(i) == fv {
						arrived = fv
					}
				}
			}
			return true
		})
	}
	if arrived == nil {
		c.Missing("arrived-tokens field", "no id-slice field of "+owner.Obj().Name()+" that collects the arrived tokens was found")
		return
	}
	// decision points: sends of an action literal that carries a probe callback, in methods of the owner
	n := 0
	for _, f := range p.Funcs {
		if f.Obj == nil || recvNamed(f.Obj) == nil || recvNamed(f.Obj).Obj() != owner.Obj() {
			continue
		}
		in := info(f)
		te := newTaint(p, f, 0)
		inspectNoLit(f.Body, func(nd ast.Node) bool {
			ss, ok := nd.(*ast.SendStmt)
			if !ok {
				return true
			}
			cl, ok := unparen(ss.Value).(*ast.CompositeLit)
			if !ok {
				return true
			}
			hasCallback := false
			for _, el := range cl.Elts {
				if kv, ok := el.(*ast.KeyValueExpr); ok {
					if _, ok := kv.Value.(*ast.FuncLit); ok {
						hasCallback = true
					}
				}
			}
			if nt := namedOf(in.TypeOf(cl)); nt == nil || !hasMethod(nt, "action") || !hasCallback {
				return true
			}
			n++
			t := map[*types.Var]bool{}
			conds := controlConds(p, f, ss)
			for _, cnd := range conds {
				unionInto(t, te.expr(cnd))
			}
			// conditions at the call sites of this helper inside the owner's methods count as well
			var cs []string
			for _, cnd := range conds {
				cs = append(cs, exprString(cnd.(ast.Expr)))
			}
			okBoth := t[awaited] && t[arrived]
			c.Check(okBoth, f, ss, "decision to synchronise (probe sent to the activating token)", what,
				fmt.Sprintf("controlling conditions: [%s]; depends on the elements of %s: %v, of %s: %v", strings.Join(cs, " ; "), awaited.Name(), t[awaited], arrived.Name(), t[arrived]))
			return true
		})
	}
	if n == 0 {
		c.Missing("decision to synchronise", "no send of a probing action was found in the methods of "+owner.Obj().Name())
	}
}

// ---- R55 ----

func ruleR55(c *Ctx) {
	p := c.P
	found := 0
	for _, f := range p.Funcs {
		if f.Pkg.PkgPath != pathBpmn {
			continue
		}
		in := info(f)
		var retryArms []enumBranch
		for _, arms := range enumDispatches(p, in, f.Body, pathBpmn, "ErrHandleMode") {
			for _, a := range arms {
				if a.Name == "RetryMode" && len(a.Body) > 0 {
					retryArms = append(retryArms, a)
				}
			}
		}
		for _, arm := range retryArms {
			ccBody := arm.Body
			g := p.Graph(f)
			region := regionOfStmts(ccBody)
			entry, ok := g.EntryOfStmts(ccBody)
			if !ok {
				continue
			}
			isCallTo := func(n ast.Node, name string, argPred func(*ast.CallExpr) bool) bool {
				return exprMentions(n, func(z ast.Node) bool {
					call, ok := z.(*ast.CallExpr)
					if !ok {
						return false
					}
					fn := callee(in, call)
					if fn == nil || fn.Name() != name || recvNamed(fn) == nil || recvNamed(fn).Obj().Name() != "Retry" {
						return false
					}
					return argPred == nil || argPred(call)
				})
			}
			fromHandler := func(call *ast.CallExpr) bool {
				if len(call.Args) != 1 {
					return false
				}
				return exprMentions(call.Args[0], func(z ast.Node) bool {
					if s, ok := z.(*ast.SelectorExpr); ok {
						if fv := fieldOf(in, s); fv != nil && fv.Name() == "Retries" {
							if nt := namedOf(in.TypeOf(s.X)); nt != nil && nt.Obj().Name() == "ErrHandler" {
								return true
							}
						}
					}
					return false
				})
			}
			// decision points
			var decisions []ast.Node
			for _, st := range ccBody {
				inspectNoLit(st, func(z ast.Node) bool {
					if call, ok := z.(*ast.CallExpr); ok && isCallTo(call, "IsContinue", nil) {
						decisions = append(decisions, call)
					}
					return true
				})
			}
			within := g.WithinRegion(region)
			for _, d := range decisions {
				found++
				// (a) every path clause entry -> decision passes Reset(handler.Retries)
				reach, w := g.SearchB(entry, true, func(pt Point, n ast.Node) Action {
					if n == nil {
						return Prune
					}
					if isCallTo(n, "Reset", fromHandler) {
						return Prune
					}
					if exprMentions(n, func(z ast.Node) bool { return z == d }) {
						return Found
					}
					return Continue
				}, within)
				c.Check(!reach, f, d, "retry decision uses the answered limit",
					"when the handler answers RetryMode, the decision whether another attempt is made is taken against the number of retries of that answer (Reset(handler.Retries)) on every path; an answer of 0 retries means no further attempt",
					ifElse(reach, fmt.Sprintf("path from the RetryMode clause to IsContinue without Reset(handler.Retries): lines %v", g.Lines(w)), "every path to IsContinue passes Reset(handler.Retries)"))
				// (b) the true branch counts the attempt before the task is awaited again
				par := p.Parent(d)
				for par != nil {
					if _, ok := par.(*ast.IfStmt); ok {
						break
					}
					par = p.Parent(par)
				}
				ifs, _ := par.(*ast.IfStmt)
				if ifs == nil || !exprMentions(ifs.Cond, func(z ast.Node) bool { return z == d }) {
					continue
				}
				neg := false
				if u, ok := unparen(ifs.Cond).(*ast.UnaryExpr); ok && u.Op == token.NOT {
					neg = true
				}
				var branch []ast.Stmt
				if !neg {
					branch = ifs.Body.List
				} else if els, ok := ifs.Else.(*ast.BlockStmt); ok {
					branch = els.List
				} else {
					// if !IsContinue { ...; return }; <rest of the block>
					if blk, ok := p.Parent(ifs).(*ast.BlockStmt); ok {
						for i, st := range blk.List {
							if st == ast.Stmt(ifs) {
								branch = blk.List[i+1:]
							}
						}
					} else if cl, ok := p.Parent(ifs).(*ast.CaseClause); ok {
						for i, st := range cl.Body {
							if st == ast.Stmt(ifs) {
								branch = cl.Body[i+1:]
							}
						}
					}
				}
				if len(branch) == 0 {
					c.Bad(f, d, "retry attempt is counted", "every further attempt is counted (Step) before the task is awaited again", "the branch taken when another attempt is allowed was not found (undecided)")
					continue
				}
				bentry, ok := g.EntryOfStmts(branch)
				if !ok {
					continue
				}
				bad := g.RegionPaths(bentry, regionOfStmts(branch), func(n ast.Node) bool { return isCallTo(n, "Step", nil) })
				// the entry node itself may be the Step call
				if len(bad) > 0 && isCallTo(bentry.Node(), "Step", nil) {
					bad = nil
				}
				c.Check(len(bad) == 0, f, ifs, "retry attempt is counted",
					"every further attempt is counted (Step) before the task is awaited again; otherwise a failing task is retried without bound",
					ifElse(len(bad) == 0, "every path of the retry branch passes Step()", "a path of the retry branch leaves without Step()"))
			}
		}
	}
	if found == 0 {
		c.Missing("retry decision", "no IsContinue call inside a RetryMode clause was found")
	}
}

func ifElse(b bool, x, y string) string {
	if b {
		return x
	}
	return y
}

// ---- R56 ----

func ruleR56(c *Ctx) {
	p := c.P
	what := "a goroutine launched for one message of a node's mailbox must work on state of its own; a variable that is declared outside the message loop and written (or filled through a pointer) inside the goroutine is shared by the requests of all tokens, so one token can read the answer given for another"
	for _, f := range p.Funcs {
		if f.Pkg.PkgPath != pathBpmn || f.Lit != nil {
			continue
		}
		in := info(f)
		ast.Inspect(f.Body, func(n ast.Node) bool {
			gs, ok := n.(*ast.GoStmt)
			if !ok {
				return true
			}
			fl, ok := gs.Call.Fun.(*ast.FuncLit)
			if !ok {
				return true
			}
			// outermost enclosing loop inside the same function body
			var loop ast.Node
			for cur := p.Parent(gs); cur != nil; cur = p.Parent(cur) {
				switch cur.(type) {
				case *ast.ForStmt, *ast.RangeStmt:
					loop = cur
				case *ast.FuncDecl:
					cur = nil
				}
				if cur == nil {
					break
				}
			}
			if loop == nil {
				return true
			}
			// is it a per-message goroutine: the loop receives from a mailbox
			perMsg := false
			inspectNoLit(loop, func(z ast.Node) bool {
				if u, ok := z.(*ast.UnaryExpr); ok && u.Op == token.ARROW && isMailboxChan(in.TypeOf(u.X)) {
					perMsg = true
				}
				return true
			})
			if !perMsg {
				return true
			}
			// free variables of the literal declared outside the loop (locals of f, not parameters)
			shared := map[*types.Var][]string{}
			ast.Inspect(fl.Body, func(z ast.Node) bool {
				id, ok := z.(*ast.Ident)
				if !ok {
					return true
				}
				v, ok := in.Uses[id].(*types.Var)
				if !ok || v.IsField() || v.Pkg() == nil {
					return true
				}
				if v.Pos() >= loop.Pos() && v.Pos() <= loop.End() {
					return true // declared per iteration
				}
				if v.Pos() < f.Body.Pos() || v.Pos() > f.Body.End() {
					return true // parameter, receiver or package level
				}
				// how is it used?
				use := ""
				par := p.Parent(id)
				switch x := par.(type) {
				case *ast.AssignStmt:
					for _, l := range x.Lhs {
						if l == ast.Expr(id) {
							use = "assigned"
						}
					}
				case *ast.IncDecStmt:
					use = "assigned"
				case *ast.SelectorExpr:
					if x.X == ast.Expr(id) {
						if _, isPtr := v.Type().Underlying().(*types.Pointer); isPtr {
							if isWriteAccess(p, in, x) {
								use = "field written through the shared pointer"
							}
						}
					}
				case *ast.UnaryExpr:
					if x.Op == token.AND {
						use = "address taken"
					}
				}
				if use == "" {
					switch v.Type().Underlying().(type) {
					case *types.Pointer:
						// a pointer to a struct that is handed on (argument / field value): shared object
						if _, isStruct := v.Type().Underlying().(*types.Pointer).Elem().Underlying().(*types.Struct); isStruct {
							switch par.(type) {
							case *ast.CallExpr, *ast.KeyValueExpr, *ast.SendStmt:
								if !isSyncOrCtx(v.Type()) {
									use = "shared pointer handed on"
								}
							}
						}
					}
				}
				if use != "" {
					shared[v] = append(shared[v], use)
				}
				return true
			})
			var names []string
			for v, u := range shared {
				sort.Strings(u)
				names = append(names, v.Name()+" ("+u[0]+")")
			}
			sort.Strings(names)
			c.Check(len(names) == 0, f, gs, "per-message goroutine", what,
				ifElse(len(names) == 0, "the goroutine writes no variable declared outside the message loop", "declared outside the loop and shared by every request: "+strings.Join(names, ", ")))
			return true
		})
	}
}

func isSyncOrCtx(t types.Type) bool {
	if pt, ok := t.Underlying().(*types.Pointer); ok {
		t = pt.Elem()
	}
	if n := namedOf(t); n != nil && n.Obj().Pkg() != nil {
		switch n.Obj().Pkg().Path() {
		case "sync", "sync/atomic", "context":
			return true
		}
	}
	return false
}

// ---- R57 ----

func init() {
	register(&Rule{ID: "R57", Title: "a token that did not move does not ask again: after the call that moves the token to the next node, the token goroutine returns to its wait for the next action only on paths where the move is known to have happened", Min: 1, Run: ruleR57})
}

func ruleR57(c *Ctx) {
	p := c.P
	what := "when the token goroutine has handed out the outgoing flows of its node but did not itself move (its own flow's condition was false), it must end; going back to the wait asks the same node for another action, i.e. requests the same activity a second time for one token"
	n := 0
	for _, f := range p.Funcs {
		if f.Pkg.PkgPath != pathBpmn {
			continue
		}
		in := info(f)
		// the wait for the next action: a receive from X.NextAction(...) and the field X
		var cur *types.Var
		isAwait := func(nd ast.Node) bool {
			return exprMentions(nd, func(z ast.Node) bool {
				u, ok := z.(*ast.UnaryExpr)
				if !ok || u.Op != token.ARROW {
					return false
				}
				call, ok := unparen(u.X).(*ast.CallExpr)
				if !ok {
					return false
				}
				fn := callee(in, call)
				return fn != nil && fn.Name() == "NextAction"
			})
		}
		inspectNoLit(f.Body, func(nd ast.Node) bool {
			u, ok := nd.(*ast.UnaryExpr)
			if !ok || u.Op != token.ARROW {
				return true
			}
			if call, ok := unparen(u.X).(*ast.CallExpr); ok {
				if fn := callee(in, call); fn != nil && fn.Name() == "NextAction" {
					if s, ok := unparen(call.Fun).(*ast.SelectorExpr); ok {
						if fv := fieldOf(in, s.X); fv != nil {
							cur = fv
						}
					}
				}
			}
			return true
		})
		if cur == nil {
			continue
		}
		g := p.Graph(f)
		inspectNoLit(f.Body, func(nd ast.Node) bool {
			as, ok := nd.(*ast.AssignStmt)
			if !ok || len(as.Rhs) != 1 {
				return true
			}
			call, ok := unparen(as.Rhs[0]).(*ast.CallExpr)
			if !ok {
				return true
			}
			mf := p.byObj[callee(in, call)]
			if mf == nil || mf.Body == nil || mf.Obj == nil {
				return true
			}
			sig := mf.Obj.Type().(*types.Signature)
			bi := -1
			for i := 0; i < sig.Results().Len(); i++ {
				if b, ok := sig.Results().At(i).Type().Underlying().(*types.Basic); ok && b.Kind() == types.Bool {
					bi = i
				}
			}
			if bi < 0 || bi >= len(as.Lhs) {
				return true
			}
			// does the callee move the token: assigns the receiver's `cur` field
			moves := false
			min := info(mf)
			inspectNoLit(mf.Body, func(z ast.Node) bool {
				if a2, ok := z.(*ast.AssignStmt); ok {
					for _, l := range a2.Lhs {
						if fieldOf(min, l) == cur {
							if r := rootIdent(l); r != nil && mf.Decl != nil && mf.Decl.Recv != nil && len(mf.Decl.Recv.List) > 0 && len(mf.Decl.Recv.List[0].Names) > 0 && objOf(min, r) == min.Defs[mf.Decl.Recv.List[0].Names[0]] {
								moves = true
							}
						}
					}
				}
				return true
			})
			if !moves {
				return true
			}
			v, _ := objOf(in, as.Lhs[bi]).(*types.Var)
			if v == nil {
				return true
			}
			n++
			pt, ok := g.PointOf(as)
			if !ok {
				c.Bad(f, as, "move of the token", what, "the call is not a node of the control-flow graph (undecided)")
				return true
			}
			condIs := func(e ast.Expr, neg bool) bool {
				e = unparen(e)
				if neg {
					u, ok := e.(*ast.UnaryExpr)
					if !ok || u.Op != token.NOT {
						return false
					}
					e = unparen(u.X)
				}
				id, ok := e.(*ast.Ident)
				return ok && objOf(in, id) == types.Object(v)
			}
			overwritten := ""
			found, w := g.SearchB(pt, false, func(pt Point, nd ast.Node) Action {
				if nd == nil {
					return Prune
				}
				if isAwait(nd) {
					return Found
				}
				// the tested result must be the one the move returned: another assignment to the same variable
				// on the way (e.g. the result of starting an additional flow) makes the test meaningless
				if nd != ast.Node(as) {
					re := false
					inspectNoLit(nd, func(z ast.Node) bool {
						if a2, ok := z.(*ast.AssignStmt); ok && a2.Tok == token.ASSIGN {
							for _, l := range a2.Lhs {
								if lid, ok := unparen(l).(*ast.Ident); ok && objOf(in, lid) == types.Object(v) {
									re = true
								}
							}
						}
						return true
					})
					if re {
						overwritten = p.Pos(nd.Pos())
						return Found
					}
				}
				return Continue
			}, func(b *xcfg.Block) Action {
				ifs, ok := b.Stmt.(*ast.IfStmt)
				if !ok {
					return Continue
				}
				switch b.Kind {
				case xcfg.KindIfThen:
					if condIs(ifs.Cond, false) {
						return Prune
					}
				case xcfg.KindIfElse:
					if condIs(ifs.Cond, true) {
						return Prune
					}
				case xcfg.KindIfDone:
					if condIs(ifs.Cond, true) && ifs.Else == nil && blockAlwaysLeaves(ifs.Body) {
						return Prune
					}
					if condIs(ifs.Cond, false) && ifs.Else != nil {
						if eb, ok := ifs.Else.(*ast.BlockStmt); ok && blockAlwaysLeaves(eb) {
							return Prune
						}
					}
				}
				return Continue
			})
			wit := "every path back to the wait for the next action lies behind a test that " + v.Name() + " is true"
			if found && overwritten != "" {
				wit = fmt.Sprintf("%s is assigned again at %s before it is tested: the test no longer speaks about the move (path lines %v)", v.Name(), overwritten, g.Lines(w))
			} else if found {
				wit = fmt.Sprintf("path from the move back to the wait for the next action on which %s may be false: lines %v", v.Name(), g.Lines(w))
			}
			c.Check(!found, f, as, "move of the token by "+mf.QName(), what, wit)
			return true
		})
	}
	if n == 0 {
		c.Missing("move of the token", "no call that moves the token (assigns the node the token waits on) with a boolean result was found in the token goroutine")
	}
}

// blockAlwaysLeaves: the block's last statement is a return / branch (no fall through).
func blockAlwaysLeaves(b *ast.BlockStmt) bool {
	return leavesBlock(b)
}

// ---- R58: lock pairing ----

func init() {
	register(&Rule{ID: "R58", Title: "lock pairing: every Lock/RLock in the engine is released on every path to the exit of the function that took it, or handed to a goroutine launched by that function which releases it", Min: 30, Run: ruleR58})
	register(&Rule{ID: "R59", Title: "fresh cohort before the decision: whenever the inclusive join refreshes the set of awaited tokens, the decision to synchronise is re-evaluated afterwards on every path", Min: 2, Run: ruleR59})
}

func mutexCall(in *types.Info, call *ast.CallExpr) (x ast.Expr, kind string) {
	s, ok := unparen(call.Fun).(*ast.SelectorExpr)
	if !ok {
		return nil, ""
	}
	fn := callee(in, call)
	if fn == nil || fn.Pkg() == nil || fn.Pkg().Path() != "sync" {
		return nil, ""
	}
	if rn := recvNamed(fn); rn == nil || (rn.Obj().Name() != "Mutex" && rn.Obj().Name() != "RWMutex") {
		return nil, ""
	}
	switch fn.Name() {
	case "Lock", "RLock", "Unlock", "RUnlock":
		return s.X, fn.Name()
	}
	return nil, ""
}

func ruleR58(c *Ctx) {
	p := c.P
	what := "a mutex taken by a function is released on every path to that function's exit (defer or explicit), or is deliberately handed to a goroutine the function starts and that goroutine releases it; a path that returns with the mutex held blocks every later user of it forever"
	for _, f := range p.Funcs {
		if !isTargetPkg(p, f.Pkg.PkgPath) || f.Body == nil {
			continue
		}
		in := info(f)
		var locks []*ast.CallExpr
		inspectNoLit(f.Body, func(n ast.Node) bool {
			if call, ok := n.(*ast.CallExpr); ok {
				if _, k := mutexCall(in, call); k == "Lock" || k == "RLock" {
					if _, isDefer := p.Parent(call).(*ast.DeferStmt); !isDefer {
						locks = append(locks, call)
					}
				}
			}
			return true
		})
		if len(locks) == 0 {
			continue
		}
		g := p.Graph(f)
		for _, lk := range locks {
			lx, kind := mutexCall(in, lk)
			want := "Unlock"
			if kind == "RLock" {
				want = "RUnlock"
			}
			// the CFG node holding the call
			var node ast.Node = lk
			for {
				if _, ok := g.PointOf(node); ok {
					break
				}
				node = p.Parent(node)
				if node == nil {
					break
				}
			}
			if node == nil {
				c.Bad(f, lk, kind+" of "+exprString(lx), what, "the call is not a node of the control-flow graph (undecided)")
				continue
			}
			pt, _ := g.PointOf(node)
			isRelease := func(n ast.Node) bool {
				return nodeHasCall(p, n, func(call *ast.CallExpr) bool {
					ux, k := mutexCall(info(f), call)
					return k == want && sameRef(in, ux, lx)
				}) || releasedByCallee(p, f, n, lx, want, 0)
			}
			// flag-coupled: `if locked { mu.Lock() }` ... `if locked { mu.Unlock() }` is accepted when a
			// release exists under the same flag
			flagCoupled := false
			if ifs, ok := p.Parent(p.Parent(p.Parent(lk))).(*ast.IfStmt); ok {
				if id, ok := unparen(ifs.Cond).(*ast.Ident); ok {
					inspectNoLit(f.Body, func(n ast.Node) bool {
						if i2, ok := n.(*ast.IfStmt); ok && i2 != ifs {
							if id2, ok := unparen(i2.Cond).(*ast.Ident); ok && objOf(in, id2) == objOf(in, id) {
								if exprMentions(i2.Body, func(z ast.Node) bool { return isRelease(z) && z != ast.Node(i2.Body) }) {
									flagCoupled = true
								}
							}
						}
						return true
					})
				}
			}
			bad := g.MustPassBeforeExit(pt, false, isRelease)
			if len(bad) == 0 {
				c.Ok(f, lk, kind+" of "+exprString(lx), what, "every path from the "+kind+" to an exit passes "+want+" (defer or explicit)", true)
				continue
			}
			// hand-off: on every unreleased path a goroutine is started (or the function is itself the
			// constructor that starts it) whose call tree releases the same field
			handed := ""
			fld := fieldOf(in, lx)
			if fld != nil {
				inspectNoLit(f.Body, func(n ast.Node) bool {
					gs, ok := n.(*ast.GoStmt)
					if !ok || gs.Pos() < lk.Pos() {
						return true
					}
					var root *FuncInfo
					if lit, ok := gs.Call.Fun.(*ast.FuncLit); ok {
						root = p.byLit[lit]
					} else {
						root = p.byObj[callee(in, gs.Call)]
					}
					if root == nil {
						return true
					}
					for tf := range goroutineTree(p, root) {
						tin := info(tf)
						inspectNoLit(tf.Body, func(z ast.Node) bool {
							if call, ok := z.(*ast.CallExpr); ok {
								if ux, k := mutexCall(tin, call); k == want && fieldOf(tin, ux) == fld {
									handed = root.QName()
								}
							}
							return true
						})
					}
					return true
				})
			}
			if handed != "" {
				// every unreleased path must pass the go statement
				bad2 := g.MustPassBeforeExit(pt, false, func(n ast.Node) bool {
					if isRelease(n) {
						return true
					}
					_, isGo := n.(*ast.GoStmt)
					return isGo
				})
				// error returns between the lock and the go statement keep the lock: not accepted
				if len(bad2) == 0 {
					c.Ok(f, lk, kind+" of "+exprString(lx), what, "handed to goroutine "+handed+", which releases "+fld.Name(), true)
					continue
				}
				bad = bad2
			}
			if flagCoupled {
				c.Ok(f, lk, kind+" of "+exprString(lx), what, "taken and released under the same flag parameter", true)
				continue
			}
			// (1) returned held: the mutex belongs to an object this function creates and returns; a method of
			// the type releases it
			if r := rootIdent(lx); r != nil && fld != nil {
				if lv, ok := objOf(in, r).(*types.Var); ok && !isParam(f, lv) && lv.Pos() > f.Body.Pos() && lv.Pos() < f.Body.End() {
					returned := false
					inspectNoLit(f.Body, func(n ast.Node) bool {
						if rs, ok := n.(*ast.ReturnStmt); ok {
							for _, e := range rs.Results {
								if id := rootIdent(e); id != nil && objOf(in, id) == types.Object(lv) {
									returned = true
								}
							}
						}
						return true
					})
					releaser := ""
					for _, h := range p.Funcs {
						if h.Obj == nil || h.Body == nil || h == f {
							continue
						}
						hin := info(h)
						hg := p.Graph(h)
						if len(hg.MustPassBeforeExit(hg.Entry(), true, func(m ast.Node) bool {
							return nodeHasCall(p, m, func(c2 *ast.CallExpr) bool {
								ux, k := mutexCall(hin, c2)
								return k == want && fieldOf(hin, ux) == fld
							})
						})) == 0 {
							takes := false
							inspectNoLit(h.Body, func(z ast.Node) bool {
								if c2, ok := z.(*ast.CallExpr); ok {
									if ux, k := mutexCall(hin, c2); (k == "Lock" || k == "RLock") && fieldOf(hin, ux) == fld {
										takes = true
									}
								}
								return true
							})
							if !takes {
								releaser = h.QName()
							}
						}
					}
					if returned && releaser != "" {
						c.Ok(f, lk, kind+" of "+exprString(lx), what, "the object is created here and returned with the mutex held; "+releaser+" releases it", true)
						continue
					}
				}
			}
			// (2) the held state is returned to the caller as a flag: `mu.Lock(); held = true ... return held`
			if blk, ok := p.Parent(p.Parent(lk)).(*ast.BlockStmt); ok {
				flagged := false
				for i, st := range blk.List {
					if es, ok := st.(*ast.ExprStmt); ok && es.X == ast.Expr(lk) && i+1 < len(blk.List) {
						if as, ok := blk.List[i+1].(*ast.AssignStmt); ok && len(as.Lhs) == 1 && len(as.Rhs) == 1 {
							if id, ok := unparen(as.Rhs[0]).(*ast.Ident); ok && id.Name == "true" {
								if fv, ok := objOf(in, as.Lhs[0]).(*types.Var); ok {
									allRet := true
									inspectNoLit(f.Body, func(n ast.Node) bool {
										if rs, ok := n.(*ast.ReturnStmt); ok && rs.Pos() > lk.Pos() {
											has := false
											for _, e := range rs.Results {
												if rid, ok := unparen(e).(*ast.Ident); ok && objOf(in, rid) == types.Object(fv) {
													has = true
												}
											}
											if !has {
												allRet = false
											}
										}
										return true
									})
									flagged = allRet
								}
							}
						}
					}
				}
				if flagged {
					c.Ok(f, lk, kind+" of "+exprString(lx), what, "the held state is returned to the caller as a flag set right after the "+kind+" (the caller's protocol is rule R22)", true)
					continue
				}
			}
			// (3) handed to the closure this function returns, which releases it on every exit
			{
				okAll, any := true, false
				inspectNoLit(f.Body, func(n ast.Node) bool {
					rs, ok := n.(*ast.ReturnStmt)
					if !ok || rs.Pos() < lk.Pos() {
						return true
					}
					any = true
					good := false
					for _, e := range rs.Results {
						if lit, ok := unparen(e).(*ast.FuncLit); ok {
							lf := p.byLit[lit]
							lg := p.Graph(lf)
							if len(lg.MustPassBeforeExit(lg.Entry(), true, func(m ast.Node) bool {
								return nodeHasCall(p, m, func(c2 *ast.CallExpr) bool {
									ux, k := mutexCall(in, c2)
									return k == want && sameRef(in, ux, lx)
								})
							})) == 0 {
								good = true
							}
						}
					}
					if !good {
						okAll = false
					}
					return true
				})
				if any && okAll {
					c.Ok(f, lk, kind+" of "+exprString(lx), what, "handed to the function literal returned here, which releases it on every exit", true)
					continue
				}
			}
			c.Bad(f, lk, kind+" of "+exprString(lx), what, "path from the "+kind+" to an exit without "+want+": "+witnessLines(g, bad[:1]))
		}
	}
}

// releasedByCallee: node n calls a same-package function (depth<=2) that releases the same lock field on all its exits.
func releasedByCallee(p *Prog, f *FuncInfo, n ast.Node, lx ast.Expr, want string, depth int) bool {
	if depth >= 2 {
		return false
	}
	if _, isGo := n.(*ast.GoStmt); isGo {
		return false
	}
	in := info(f)
	fld := fieldOf(in, lx)
	if fld == nil {
		return false
	}
	res := false
	for _, call := range callsIn(n) {
		cf := p.byObj[callee(in, call)]
		if cf == nil || cf.Body == nil || cf.Pkg != f.Pkg {
			continue
		}
		cin := info(cf)
		has := false
		inspectNoLit(cf.Body, func(z ast.Node) bool {
			if c2, ok := z.(*ast.CallExpr); ok {
				if ux, k := mutexCall(cin, c2); k == want && fieldOf(cin, ux) == fld {
					has = true
				}
			}
			return true
		})
		if !has {
			continue
		}
		// and it does not take the lock itself first
		takes := false
		inspectNoLit(cf.Body, func(z ast.Node) bool {
			if c2, ok := z.(*ast.CallExpr); ok {
				if ux, k := mutexCall(cin, c2); (k == "Lock" || k == "RLock") && fieldOf(cin, ux) == fld {
					takes = true
				}
			}
			return true
		})
		if takes {
			continue
		}
		g := p.Graph(cf)
		bad := g.MustPassBeforeExit(g.Entry(), true, func(m ast.Node) bool {
			return nodeHasCall(p, m, func(c2 *ast.CallExpr) bool {
				ux, k := mutexCall(cin, c2)
				return k == want && fieldOf(cin, ux) == fld
			})
		})
		if len(bad) == 0 {
			res = true
		}
	}
	return res
}

// ---- R59 ----

func ruleR59(c *Ctx) {
	p := c.P
	what := "the decision whether the join may synchronise is taken against the current cohort: after every refresh of the awaited set the decision is re-evaluated before the gateway goes back to waiting; a refresh that is not followed by the decision is used one notification too late (lost wake-up)"
	// decision functions: functions that contain the send of a probing action (see R54), plus their callers' calls
	decision := map[*types.Func]bool{}
	for _, f := range p.Funcs {
		if f.Obj == nil || f.Pkg.PkgPath != pathBpmn {
			continue
		}
		in := info(f)
		inspectNoLit(f.Body, func(nd ast.Node) bool {
			ss, ok := nd.(*ast.SendStmt)
			if !ok {
				return true
			}
			cl, ok := unparen(ss.Value).(*ast.CompositeLit)
			if !ok {
				return true
			}
			if nt := namedOf(in.TypeOf(cl)); nt == nil || !hasMethod(nt, "action") {
				return true
			}
			for _, el := range cl.Elts {
				if kv, ok := el.(*ast.KeyValueExpr); ok {
					if _, ok := kv.Value.(*ast.FuncLit); ok {
						decision[f.Obj] = true
					}
				}
			}
			return true
		})
	}
	n := 0
	handlers := append(msgHandlers(p, isIMessage), selectClauses(p)...)
	for _, f := range p.Funcs {
		if f.Pkg.PkgPath != pathBpmn || f.Body == nil {
			continue
		}
		in := info(f)
		inspectNoLit(f.Body, func(nd ast.Node) bool {
			as, ok := nd.(*ast.AssignStmt)
			if !ok || len(as.Lhs) != 1 || len(as.Rhs) != 1 {
				return true
			}
			call, ok := unparen(as.Rhs[0]).(*ast.CallExpr)
			if !ok {
				return true
			}
			fn := callee(in, call)
			if fn == nil || fn.Name() != "activeFlowsInCohort" || fieldOf(in, as.Lhs[0]) == nil {
				return true
			}
			n++
			g := p.Graph(f)
			pt, ok := g.PointOf(as)
			if !ok {
				c.Bad(f, as, "refresh of the awaited cohort", what, "not a node of the control-flow graph (undecided)")
				return true
			}
			// region: innermost handler / select clause body containing the assignment
			body := f.Body.List
			for _, h := range handlers {
				if h.Func == f && len(h.Body) > 0 && regionOfStmts(h.Body).Contains(as) && regionOfStmts(h.Body).End-regionOfStmts(h.Body).Pos < regionOfStmts(body).End-regionOfStmts(body).Pos {
					body = h.Body
				}
			}
			region := regionOfStmts(body)
			isDecision := func(z ast.Node) bool {
				return z != ast.Node(as) && nodeHasCall(p, z, func(c2 *ast.CallExpr) bool {
					f2 := callee(in, c2)
					return f2 != nil && decision[f2]
				}) || (decision[funcObjOf(f)] && false)
			}
			bad := g.RegionPaths(pt, region, isDecision)
			c.Check(len(bad) == 0, f, as, "refresh of the awaited cohort", what,
				ifElse(len(bad) == 0, "every path from the refresh to the end of the handling clause re-evaluates the decision", "path from the refresh to the end of the clause without re-evaluating the decision: "+witnessLines(g, bad[:min(1, len(bad))])))
			return true
		})
	}
	if n == 0 {
		c.Missing("refresh of the awaited cohort", "no assignment from the tracker's cohort query was found")
	}
}

func funcObjOf(f *FuncInfo) *types.Func { return f.Obj }

// selectClauses returns the comm clauses of every select as handler regions.
func selectClauses(p *Prog) []tsClause {
	var out []tsClause
	for _, f := range p.Funcs {
		inspectNoLit(f.Body, func(n ast.Node) bool {
			if cc, ok := n.(*ast.CommClause); ok && len(cc.Body) > 0 {
				out = append(out, tsClause{Func: f, At: cc, Body: cc.Body})
			}
			return true
		})
	}
	return out
}

// ---- R60: context agreement ----

func init() {
	register(&Rule{ID: "R60", Title: "context agreement: a function that is given a context passes that context (or one derived from it) on to the engine calls it makes, not a context stored in a field or a fresh background context", Min: 45, Run: ruleR60})
}

func isContextType(t types.Type) bool {
	return t != nil && isNamed(t, "context", "Context")
}

func ruleR60(c *Ctx) {
	p := c.P
	what := "everything a call does on behalf of its caller runs under the caller's context, so cancelling that context stops all of it and completion is judged for the same scope; passing on a stored or background context instead detaches that part (it is not cancelled with the rest, or is cancelled while the rest goes on)"
	for _, f := range p.Funcs {
		if !isTargetPkg(p, f.Pkg.PkgPath) || f.Body == nil {
			continue
		}
		in := info(f)
		// context parameters in scope: own, or of enclosing functions
		var ctxParams []*types.Var
		for cur := f; cur != nil; cur = cur.Parent {
			var ft *ast.FuncType
			if cur.Decl != nil {
				ft = cur.Decl.Type
			} else if cur.Lit != nil {
				ft = cur.Lit.Type
			}
			if ft == nil || ft.Params == nil {
				continue
			}
			for _, fl := range ft.Params.List {
				for _, nm := range fl.Names {
					if v, ok := in.Defs[nm].(*types.Var); ok && isContextType(v.Type()) {
						ctxParams = append(ctxParams, v)
					}
				}
			}
		}
		if len(ctxParams) == 0 {
			continue
		}
		// locals derived from a context parameter
		derived := map[types.Object]bool{}
		for _, v := range ctxParams {
			derived[v] = true
		}
		root := f.Root()
		for iter := 0; iter < 4; iter++ {
			ast.Inspect(root.Body, func(n ast.Node) bool {
				as, ok := n.(*ast.AssignStmt)
				if !ok {
					return true
				}
				for i, l := range as.Lhs {
					id, ok := l.(*ast.Ident)
					if !ok || !isContextType(in.TypeOf(l)) {
						continue
					}
					var rhs ast.Expr
					if len(as.Rhs) == len(as.Lhs) {
						rhs = as.Rhs[i]
					} else if len(as.Rhs) == 1 {
						rhs = as.Rhs[0]
					}
					if rhs == nil {
						continue
					}
					if exprMentionsAny(rhs, func(z ast.Node) bool {
						zid, ok := z.(*ast.Ident)
						return ok && derived[objOf(in, zid)]
					}) {
						if o := objOf(in, id); o != nil {
							derived[o] = true
						}
					}
				}
				return true
			})
		}
		inspectNoLit(f.Body, func(n ast.Node) bool {
			call, ok := n.(*ast.CallExpr)
			if !ok {
				return true
			}
			fn := callee(in, call)
			for _, a := range call.Args {
				if !isContextType(in.TypeOf(a)) {
					continue
				}
				// deriving a context (context.WithCancel(x)) is judged where the result is used
				if fn != nil && fn.Pkg() != nil && fn.Pkg().Path() == "context" {
					continue
				}
				name := "call"
				if fn != nil {
					name = fn.Name()
				}
				okArg := exprMentionsAny(a, func(z ast.Node) bool {
					zid, ok := z.(*ast.Ident)
					return ok && derived[objOf(in, zid)]
				})
				c.Check(okArg, f, a, "context passed to "+name, what,
					ifElse(okArg, "derived from the function's context parameter", "the argument `"+exprString(a)+"` is not derived from the context parameter "+ctxParams[0].Name()+" of "+f.Root().QName()))
			}
			return true
		})
	}
}

func exprMentionsAny(e ast.Node, pred func(ast.Node) bool) bool {
	found := false
	ast.Inspect(e, func(m ast.Node) bool {
		if m != nil && pred(m) {
			found = true
		}
		return !found
	})
	return found
}

// ---- R61: per-iteration state ----

func init() {
	register(&Rule{ID: "R61", Title: "per-iteration state: a variable that a loop iteration sets only on some paths and then uses is declared per iteration, so the value of an earlier element cannot leak into a later one", Min: 1, Run: ruleR61})
}

func ruleR61(c *Ctx) {
	p := c.P
	what := "inside a loop over elements (boundary events, flows, definitions), a variable that is assigned on only some paths of an iteration and read later in the iteration must not live across iterations; otherwise the element handled now silently inherits what an earlier element set (e.g. a non-interrupting boundary event inheriting the cancel-the-activity transformer of an interrupting one)"
	count := 0
	for _, f := range p.Funcs {
		if !isTargetPkg(p, f.Pkg.PkgPath) || f.Body == nil {
			continue
		}
		in := info(f)
		inspectNoLit(f.Body, func(n ast.Node) bool {
			var body *ast.BlockStmt
			switch x := n.(type) {
			case *ast.RangeStmt:
				body = x.Body
			case *ast.ForStmt:
				// only loops that step over elements; `for { select ... }` state machines carry state by design
				if x.Post != nil && x.Cond != nil {
					body = x.Body
				}
			}
			if body == nil || len(body.List) == 0 {
				return true
			}
			loop := n
			readAfterLoop := func(v *types.Var) bool {
				res := false
				ast.Inspect(f.Body, func(z ast.Node) bool {
					if id, ok := z.(*ast.Ident); ok && id.Pos() > loop.End() && in.Uses[id] == types.Object(v) {
						res = true
					}
					return true
				})
				return res
			}
			// candidate variables: declared in f outside the loop, plainly assigned inside the loop body
			cands := map[*types.Var]bool{}
			inspectNoLit(body, func(z ast.Node) bool {
				as, ok := z.(*ast.AssignStmt)
				if !ok || as.Tok != token.ASSIGN {
					return true
				}
				for _, l := range as.Lhs {
					id, ok := l.(*ast.Ident)
					if !ok {
						continue
					}
					v, ok := in.Uses[id].(*types.Var)
					if !ok || v.IsField() || v.Pkg() == nil {
						continue
					}
					if v.Pos() >= loop.Pos() && v.Pos() <= loop.End() {
						continue
					}
					if v.Pos() < f.Body.Pos() || v.Pos() > f.Body.End() {
						continue // parameters and named results (err) are function-scoped by nature
					}
					switch v.Type().Underlying().(type) {
					case *types.Signature, *types.Pointer, *types.Interface, *types.Map, *types.Chan:
						if !isErrorType(v.Type()) {
							cands[v] = true
						}
					}
				}
				return true
			})
			if len(cands) == 0 {
				return true
			}
			g := p.Graph(f)
			entry, ok := g.EntryOfStmts(body.List)
			if !ok {
				return true
			}
			region := regionOf(body)
			for v := range cands {
				if readAfterLoop(v) {
					continue // a search result / accumulator that outlives the loop
				}
				assigns := func(nd ast.Node) bool {
					res := false
					inspectNoLit(nd, func(z ast.Node) bool {
						if as, ok := z.(*ast.AssignStmt); ok {
							for _, l := range as.Lhs {
								if id, ok := l.(*ast.Ident); ok && objOf(in, id) == types.Object(v) {
									res = true
								}
							}
						}
						return true
					})
					return res
				}
				reads := func(nd ast.Node) bool {
					res := false
					ast.Inspect(nd, func(z ast.Node) bool {
						if as, ok := z.(*ast.AssignStmt); ok {
							// the left-hand side occurrence is not a read
							for _, r := range as.Rhs {
								ast.Inspect(r, func(y ast.Node) bool {
									if id, ok := y.(*ast.Ident); ok && in.Uses[id] == types.Object(v) {
										res = true
									}
									return true
								})
							}
							for _, l := range as.Lhs {
								if _, ok := l.(*ast.Ident); !ok {
									ast.Inspect(l, func(y ast.Node) bool {
										if id, ok := y.(*ast.Ident); ok && in.Uses[id] == types.Object(v) {
											res = true
										}
										return true
									})
								}
							}
							return false
						}
						if id, ok := z.(*ast.Ident); ok && in.Uses[id] == types.Object(v) {
							res = true
						}
						return true
					})
					return res
				}
				count++
				found, w := g.SearchB(entry, true, func(pt Point, nd ast.Node) Action {
					if nd == nil {
						return Prune
					}
					// nil checks of the variable itself are not uses of a stale value... they are: keep strict
					if reads(nd) && !assigns(nd) {
						return Found
					}
					if assigns(nd) {
						return Prune
					}
					return Continue
				}, g.WithinRegion(region))
				c.Check(!found, f, loop, "loop-carried variable "+v.Name(), what,
					ifElse(found, fmt.Sprintf("%s is declared outside the loop; a path of the loop body reads it before this iteration assigned it: lines %v", v.Name(), g.Lines(w)), "every read of "+v.Name()+" in the loop body follows an assignment of the same iteration"))
			}
			return true
		})
	}
	_ = count
}

func isErrorType(t types.Type) bool {
	n := namedOf(t)
	return n != nil && n.Obj().Pkg() == nil && n.Obj().Name() == "error"
}

// ---- R62: event posts are not lossy ----

func init() {
	register(&Rule{ID: "R62", Title: "mailbox posts are not lossy: a request or delivered event is handed to a mailbox with a send that cannot be skipped (no select with a default clause around it)", Min: 20, Run: ruleR62})
}

func ruleR62(c *Ctx) {
	p := c.P
	what := "a message posted to a node's (or the process set's) mailbox is a request or a delivered event that its goroutine must see; a post placed in a select with a default clause silently drops it whenever the mailbox happens to be full, so a listener that should continue, or a process that should be instantiated, never is"
	for _, f := range p.Funcs {
		if !isTargetPkg(p, f.Pkg.PkgPath) || f.Body == nil {
			continue
		}
		in := info(f)
		inspectNoLit(f.Body, func(n ast.Node) bool {
			ss, ok := n.(*ast.SendStmt)
			if !ok || !isMailboxChan(in.TypeOf(ss.Chan)) {
				return true
			}
			lossy := false
			if cc, ok := p.Parent(ss).(*ast.CommClause); ok {
				if sel, ok := p.Parent(p.Parent(cc)).(*ast.SelectStmt); ok {
					for _, cl := range sel.Body.List {
						if c2, ok := cl.(*ast.CommClause); ok && c2.Comm == nil {
							lossy = true
						}
					}
				}
			}
			mt := "message"
			if nt := namedOf(in.TypeOf(ss.Value)); nt != nil {
				mt = nt.Obj().Name()
			}
			c.Check(!lossy, f, ss, "post of "+mt+" to "+exprString(ss.Chan), what, ifElse(lossy, "the send is a case of a select with a default clause", "the send cannot be skipped"))
			return true
		})
	}
}

// ---- R63: swap-remove direction ----

func init() {
	register(&Rule{ID: "R63", Title: "swap-remove: when an element is removed from an unordered slice by overwrite-and-truncate, the last element is moved into the hole (not the hole's element onto the last position)", Min: 3, Run: ruleR63})
}

func ruleR63(c *Ctx) {
	p := c.P
	what := "removing element j of an unordered list by `s[j] = s[last]; s = s[:last]` keeps every other element; the reverse copy (`s[last] = s[j]`) throws away the still-needed last element and keeps the finished one (a partially matched event set is lost, or a subscriber that asked to leave stays while another is dropped)"
	for _, f := range p.Funcs {
		if !isTargetPkg(p, f.Pkg.PkgPath) || f.Body == nil {
			continue
		}
		in := info(f)
		// `last` aliases: ident := len(X) - 1
		isLenMinus1 := func(e ast.Expr, x ast.Expr) bool {
			be, ok := unparen(e).(*ast.BinaryExpr)
			if !ok || be.Op != token.SUB {
				return false
			}
			if lit, ok := unparen(be.Y).(*ast.BasicLit); !ok || lit.Value != "1" {
				return false
			}
			call, ok := unparen(be.X).(*ast.CallExpr)
			return ok && isBuiltin(in, call, "len") && len(call.Args) == 1 && sameRef(in, call.Args[0], x)
		}
		aliasOf := func(id *ast.Ident, x ast.Expr) bool {
			o := objOf(in, id)
			if o == nil {
				return false
			}
			res := false
			inspectNoLit(f.Body, func(n ast.Node) bool {
				if as, ok := n.(*ast.AssignStmt); ok && len(as.Lhs) == 1 && len(as.Rhs) == 1 {
					if lid, ok := as.Lhs[0].(*ast.Ident); ok && objOf(in, lid) == o && isLenMinus1(as.Rhs[0], x) {
						res = true
					}
				}
				return true
			})
			return res
		}
		isLast := func(e ast.Expr, x ast.Expr) bool {
			if isLenMinus1(e, x) {
				return true
			}
			if id, ok := unparen(e).(*ast.Ident); ok {
				return aliasOf(id, x)
			}
			return false
		}
		inspectNoLit(f.Body, func(n ast.Node) bool {
			var list []ast.Stmt
			switch x := n.(type) {
			case *ast.BlockStmt:
				list = x.List
			case *ast.CaseClause:
				list = x.Body
			case *ast.CommClause:
				list = x.Body
			}
			for i, st := range list {
				as, ok := st.(*ast.AssignStmt)
				if !ok || len(as.Lhs) != 1 || len(as.Rhs) != 1 {
					continue
				}
				se, ok := unparen(as.Rhs[0]).(*ast.SliceExpr)
				if !ok || se.Low != nil || se.High == nil || !sameRef(in, se.X, as.Lhs[0]) || !isLast(se.High, se.X) {
					continue
				}
				// truncation by one; look back for the overwrite
				for k := i - 1; k >= 0; k-- {
					ov, ok := list[k].(*ast.AssignStmt)
					if !ok || len(ov.Lhs) != 1 || len(ov.Rhs) != 1 {
						continue
					}
					li, ok1 := unparen(ov.Lhs[0]).(*ast.IndexExpr)
					ri, ok2 := unparen(ov.Rhs[0]).(*ast.IndexExpr)
					if !ok1 || !ok2 || !sameRef(in, li.X, se.X) || !sameRef(in, ri.X, se.X) {
						continue
					}
					good := isLast(ri.Index, se.X) && !isLast(li.Index, se.X)
					c.Check(good, f, ov, "swap-remove on "+exprString(se.X), what,
						fmt.Sprintf("overwrite `%s = %s` before the truncation: source is the last element: %v, destination is the last element: %v", exprString(ov.Lhs[0]), exprString(ov.Rhs[0]), isLast(ri.Index, se.X), isLast(li.Index, se.X)))
					// between the move and the truncation the last slot still holds the element that was moved
					// to the hole: a statement that keeps that value (for re-use as a 'spare') keeps a second
					// reference to a live element
					for q := k + 1; q < i; q++ {
						ks, ok := list[q].(*ast.AssignStmt)
						if !ok || len(ks.Rhs) != 1 {
							continue
						}
						if ki, ok := unparen(ks.Rhs[0]).(*ast.IndexExpr); ok && sameRef(in, ki.X, se.X) && isLast(ki.Index, se.X) {
							c.Bad(f, ks, "value kept from the vacated slot of "+exprString(se.X), what, fmt.Sprintf("`%s = %s` after the move keeps a reference to the element that now lives at %s", exprString(ks.Lhs[0]), exprString(ks.Rhs[0]), exprString(ov.Lhs[0])))
						}
					}
					break
				}
			}
			return true
		})
	}
}

// ---- R64: per-instance resources ----

func init() {
	register(&Rule{ID: "R64", Title: "per-instance resources: what is handed to a process instance created inside a loop (tracer, locator, generator) is itself created in that iteration, not shared by all instances the loop creates", Min: 1, Run: ruleR64})
}

func ruleR64(c *Ctx) {
	p := c.P
	what := "every instance created for a message gets resources of its own; a tracer (or other mutable object) created once outside the loop and handed to every instance makes each instance's watcher see the other instances' cease / flow traces, so the set is reported complete while an instance is still running"
	for _, f := range p.Funcs {
		if f.Pkg.PkgPath != pathBpmn || f.Body == nil {
			continue
		}
		in := info(f)
		inspectNoLit(f.Body, func(n ast.Node) bool {
			call, ok := n.(*ast.CallExpr)
			if !ok {
				return true
			}
			fn := callee(in, call)
			if fn == nil {
				return true
			}
			sig, _ := fn.Type().(*types.Signature)
			if sig == nil || sig.Results().Len() == 0 {
				return true
			}
			rn := namedOf(sig.Results().At(0).Type())
			if rn == nil || rn.Obj().Name() != "Process" || rn.Obj().Pkg() == nil || rn.Obj().Pkg().Path() != pathBpmn {
				return true
			}
			// enclosing loop
			var loop ast.Node
			for cur := p.Parent(call); cur != nil; cur = p.Parent(cur) {
				switch cur.(type) {
				case *ast.ForStmt, *ast.RangeStmt:
					loop = cur
				}
				if _, isFn := cur.(*ast.FuncDecl); isFn {
					break
				}
			}
			if loop == nil {
				// the creation was extracted into a helper: a resource that arrives as a parameter is per
				// instance only if every caller that sits in a loop creates it inside its iteration
				root := f.Root()
				if root.Obj == nil {
					return true
				}
				sig := root.Obj.Type().(*types.Signature)
				var sharedP []string
				for i := 0; i < sig.Params().Len(); i++ {
					pv := sig.Params().At(i)
					switch pv.Type().Underlying().(type) {
					case *types.Pointer, *types.Interface, *types.Map, *types.Chan:
					default:
						continue
					}
					if isContextType(pv.Type()) {
						continue
					}
					used := false
					for _, a := range call.Args {
						ast.Inspect(a, func(z ast.Node) bool {
							if id, ok := z.(*ast.Ident); ok && in.Uses[id] == types.Object(pv) {
								used = true
							}
							return true
						})
					}
					if !used {
						continue
					}
					for _, h := range p.Funcs {
						if h.Body == nil || h.Pkg != f.Pkg {
							continue
						}
						hin := info(h)
						inspectNoLit(h.Body, func(m ast.Node) bool {
							cl, ok := m.(*ast.CallExpr)
							if !ok || callee(hin, cl) != root.Obj || i >= len(cl.Args) {
								return true
							}
							hl := innermostLoop(p, cl)
							if hl == nil {
								return true
							}
							ast.Inspect(cl.Args[i], func(z ast.Node) bool {
								id, ok := z.(*ast.Ident)
								if !ok {
									return true
								}
								v, ok := hin.Uses[id].(*types.Var)
								if !ok || v.IsField() || v.Pkg() == nil {
									return true
								}
								if v.Pos() >= hl.Pos() && v.Pos() <= hl.End() {
									return true
								}
								if v.Pos() < h.Body.Pos() || v.Pos() > h.Body.End() {
									return true
								}
								sharedP = append(sharedP, v.Name()+" (declared outside the loop of "+h.QName()+", passed as "+pv.Name()+")")
								return true
							})
							return true
						})
					}
				}
				if len(sharedP) > 0 {
					c.Bad(f, call, "instance created per message by "+fn.Name(), what, "handed to every instance: "+strings.Join(sharedP, ", "))
				}
				return true
			}
			var shared []string
			for _, a := range call.Args {
				ast.Inspect(a, func(z ast.Node) bool {
					id, ok := z.(*ast.Ident)
					if !ok {
						return true
					}
					v, ok := in.Uses[id].(*types.Var)
					if !ok || v.IsField() || v.Pkg() == nil {
						return true
					}
					if v.Pos() >= loop.Pos() && v.Pos() <= loop.End() {
						return true
					}
					if v.Pos() < f.Body.Pos() || v.Pos() > f.Body.End() {
						return true // parameter / receiver
					}
					switch v.Type().Underlying().(type) {
					case *types.Pointer, *types.Interface, *types.Map, *types.Chan:
						if !isContextType(v.Type()) {
							shared = append(shared, v.Name())
						}
					}
					return true
				})
			}
			c.Check(len(shared) == 0, f, call, "instance created in a loop by "+fn.Name(), what,
				ifElse(len(shared) == 0, "every local object handed to the new instance is declared inside the loop iteration", "declared outside the loop and handed to every instance: "+strings.Join(shared, ", ")))
			return true
		})
	}
}

// ---- R66: lossless item encoding ----

func init() {
	register(&Rule{ID: "R66", Title: "lossless item encoding: a number written into an item's textual value is formatted without a precision or a fixed-point verb, so parsing it back yields the number that was stored", Min: 4, Run: ruleR66})
}

func ruleR66(c *Ctx) {
	p := c.P
	what := "the textual form stored in an item (`ItemValue`) is parsed back on every read; a fixed-point or precision-limited format (`%f`, `%.3f`, `%e`, `%g` with precision) silently rounds the stored number (3.141592653589793 → 3.141593, 1e-07 → 0)"
	for _, f := range p.Funcs {
		if f.Body == nil || !(isTargetPkg(p, f.Pkg.PkgPath) || strings.HasSuffix(f.Pkg.PkgPath, "/schema")) {
			continue
		}
		in := info(f)
		inspectNoLit(f.Body, func(n ast.Node) bool {
			as, ok := n.(*ast.AssignStmt)
			if !ok || len(as.Lhs) != 1 || len(as.Rhs) != 1 {
				return true
			}
			fv := fieldOf(in, as.Lhs[0])
			if fv == nil || fv.Name() != "ItemValue" {
				return true
			}
			call, ok := unparen(as.Rhs[0]).(*ast.CallExpr)
			if !ok {
				return true
			}
			fn := callee(in, call)
			if fn == nil || fn.Pkg() == nil {
				return true
			}
			switch {
			case fn.Pkg().Path() == "fmt" && fn.Name() == "Sprintf" && len(call.Args) >= 1:
				tv := in.Types[call.Args[0]]
				if tv.Value == nil {
					c.Bad(f, as, "format of the stored value", what, "the format string is not a constant (undecided)")
					return true
				}
				fs := tv.Value.ExactString()
				lossy := false
				for i := 0; i+1 < len(fs); i++ {
					if fs[i] != '%' {
						continue
					}
					j := i + 1
					for j < len(fs) && strings.ContainsRune("+-# 0123456789.", rune(fs[j])) {
						if fs[j] == '.' {
							lossy = true
						}
						j++
					}
					if j < len(fs) && strings.ContainsRune("feEgGxXob", rune(fs[j])) {
						lossy = true
					}
					i = j
				}
				c.Check(!lossy, f, as, "format of the stored value", what, "format "+fs+ifElse(lossy, " limits precision or uses a fixed-point / exponent verb", " prints the shortest exact representation"))
			case fn.Pkg().Path() == "strconv" && fn.Name() == "FormatFloat" && len(call.Args) == 4:
				prec := in.Types[call.Args[2]]
				okp := prec.Value != nil && prec.Value.ExactString() == "-1"
				c.Check(okp, f, as, "format of the stored value", what, ifElse(okp, "FormatFloat with precision -1 (shortest exact)", "FormatFloat with a fixed precision"))
			}
			return true
		})
	}
}

// ---- R65 / R67 ----

func init() {
	register(&Rule{ID: "R65", Title: "remove-while-iterating: an index loop that deletes the current element of the slice it walks steps the index back (or leaves the loop), so the element that slides into the hole is examined too", Min: 0, Run: ruleR65})
	register(&Rule{ID: "R67", Title: "decoded maps are never nil: a map that is filled by a decode whose error is ignored and then handed out starts as an empty map, not as nil", Min: 1, Run: ruleR67})
}

func ruleR65(c *Ctx) {
	p := c.P
	what := "deleting element i with `s = append(s[:i], s[i+1:]...)` moves element i+1 to position i; a loop that then increments i never looks at it (every second due timer is skipped when several are due at once)"
	for _, f := range p.Funcs {
		if f.Body == nil || !isTargetPkg(p, f.Pkg.PkgPath) {
			continue
		}
		in := info(f)
		inspectNoLit(f.Body, func(n ast.Node) bool {
			var body *ast.BlockStmt
			var idx types.Object
			var ranged ast.Expr
			switch x := n.(type) {
			case *ast.ForStmt:
				if inc, ok := x.Post.(*ast.IncDecStmt); ok && inc.Tok == token.INC {
					if id, ok := inc.X.(*ast.Ident); ok {
						idx = objOf(in, id)
						body = x.Body
					}
				}
			case *ast.RangeStmt:
				if id, ok := x.Key.(*ast.Ident); ok && id.Name != "_" {
					idx = objOf(in, id)
					body = x.Body
					ranged = x.X
				}
			}
			if body == nil || idx == nil {
				return true
			}
			inspectNoLit(body, func(z ast.Node) bool {
				as, ok := z.(*ast.AssignStmt)
				if !ok || len(as.Lhs) != 1 || len(as.Rhs) != 1 {
					return true
				}
				call, ok := unparen(as.Rhs[0]).(*ast.CallExpr)
				if !ok || !isBuiltin(in, call, "append") || len(call.Args) != 2 || call.Ellipsis == token.NoPos {
					return true
				}
				a0, ok0 := unparen(call.Args[0]).(*ast.SliceExpr)
				a1, ok1 := unparen(call.Args[1]).(*ast.SliceExpr)
				if !ok0 || !ok1 || !sameRef(in, a0.X, as.Lhs[0]) || !sameRef(in, a1.X, as.Lhs[0]) || a0.High == nil || a1.Low == nil {
					return true
				}
				hid, ok := unparen(a0.High).(*ast.Ident)
				if !ok || objOf(in, hid) != idx {
					return true
				}
				// the statements after the removal in the same block: i-- / break / return / continue-with-decrement
				compensated := false
				if blk, ok := p.Parent(as).(*ast.BlockStmt); ok {
					after := false
					for _, st := range blk.List {
						if st == ast.Stmt(as) {
							after = true
							continue
						}
						if !after {
							continue
						}
						switch y := st.(type) {
						case *ast.IncDecStmt:
							if id, ok := y.X.(*ast.Ident); ok && objOf(in, id) == idx && y.Tok == token.DEC {
								compensated = true
							}
						case *ast.ReturnStmt:
							compensated = true
						case *ast.BranchStmt:
							if y.Tok == token.BREAK || y.Tok == token.GOTO {
								compensated = true
							}
						}
					}
				}
				_ = ranged
				c.Check(compensated, f, as, "removal of the current element of "+exprString(as.Lhs[0]), what,
					ifElse(compensated, "the index is stepped back or the loop is left after the removal", "the loop goes on with the next index after the removal"))
				return true
			})
			return true
		})
	}
}

func ruleR67(c *Ctx) {
	p := c.P
	what := "callers index and assign into the map they are handed; a decode that fails (empty or absent value) leaves a `var m map[...]` nil, and the first assignment into it panics with 'assignment to entry in nil map'"
	for _, f := range p.Funcs {
		if f.Body == nil || !(isTargetPkg(p, f.Pkg.PkgPath) || strings.HasSuffix(f.Pkg.PkgPath, "/schema")) {
			continue
		}
		in := info(f)
		inspectNoLit(f.Body, func(n ast.Node) bool {
			call, ok := n.(*ast.CallExpr)
			if !ok {
				return true
			}
			fn := callee(in, call)
			if fn == nil || fn.Pkg() == nil || !strings.HasPrefix(fn.Name(), "Unmarshal") || len(call.Args) != 2 {
				return true
			}
			u, ok := unparen(call.Args[1]).(*ast.UnaryExpr)
			if !ok || u.Op != token.AND {
				return true
			}
			id, ok := unparen(u.X).(*ast.Ident)
			if !ok {
				return true
			}
			v, ok := objOf(in, id).(*types.Var)
			if !ok {
				return true
			}
			if _, isMap := v.Type().Underlying().(*types.Map); !isMap {
				return true
			}
			// error ignored?
			ignored := false
			switch par := p.Parent(call).(type) {
			case *ast.ExprStmt:
				ignored = true
			case *ast.AssignStmt:
				if len(par.Lhs) == 1 {
					if lid, ok := par.Lhs[0].(*ast.Ident); ok && lid.Name == "_" {
						ignored = true
					}
				}
			}
			if !ignored {
				return true
			}
			// handed out?
			returned := false
			inspectNoLit(f.Body, func(z ast.Node) bool {
				if rs, ok := z.(*ast.ReturnStmt); ok {
					for _, e := range rs.Results {
						if rid, ok := unparen(e).(*ast.Ident); ok && objOf(in, rid) == types.Object(v) {
							returned = true
						}
					}
				}
				return true
			})
			if !returned {
				return true
			}
			// declaration has a non-nil initialiser
			init := false
			inspectNoLit(f.Body, func(z ast.Node) bool {
				switch d := z.(type) {
				case *ast.AssignStmt:
					if d.Tok == token.DEFINE {
						for i, l := range d.Lhs {
							if lid, ok := l.(*ast.Ident); ok && in.Defs[lid] == types.Object(v) && i < len(d.Rhs) {
								switch r := unparen(d.Rhs[i]).(type) {
								case *ast.CompositeLit:
									init = true
								case *ast.CallExpr:
									if isBuiltin(in, r, "make") {
										init = true
									}
								}
							}
						}
					}
				case *ast.ValueSpec:
					for i, nm := range d.Names {
						if in.Defs[nm] == types.Object(v) && i < len(d.Values) {
							if _, ok := unparen(d.Values[i]).(*ast.CompositeLit); ok {
								init = true
							}
						}
					}
				}
				return true
			})
			c.Check(init, f, call, "map decoded with the error ignored and returned: "+v.Name(), what, ifElse(init, "the map starts as an empty, non-nil map", "the map is declared without a value (nil) and stays nil when the decode fails"))
			return true
		})
	}
}

// ---- R68 / R69 ----

func init() {
	register(&Rule{ID: "R68", Title: "no unsynchronised package-level random source: identifiers are drawn from the goroutine-safe global source or from a source guarded by a lock, never from a shared *rand.Rand", Min: 0, Run: ruleR68})
	register(&Rule{ID: "R69", Title: "a builder that re-arms itself after handing out its product resets all of its state (whole-struct assignment or every field), so the next product does not start from the previous one's cursor", Min: 2, Run: ruleR69})
}

func ruleR68(c *Ctx) {
	p := c.P
	what := "a *math/rand.Rand is not safe for concurrent use; when it is a package-level variable every goroutine that builds ids shares it, and two racing callers can be handed the same 63 random bits, i.e. the same identifier"
	seen := 0
	for _, pk := range p.All {
		if !(isTargetPkg(p, pk.PkgPath) || strings.HasSuffix(pk.PkgPath, "/schema")) {
			continue
		}
		sc := pk.Types.Scope()
		for _, nm := range sc.Names() {
			v, ok := sc.Lookup(nm).(*types.Var)
			if !ok {
				continue
			}
			t := v.Type()
			if pt, ok := t.Underlying().(*types.Pointer); ok {
				t = pt.Elem()
			}
			n := namedOf(t)
			if n == nil || n.Obj().Pkg() == nil || !strings.HasPrefix(n.Obj().Pkg().Path(), "math/rand") || n.Obj().Name() != "Rand" {
				continue
			}
			seen++
			// every use must be under a held mutex (R22's lockset is not reused here: require a Lock call in the using function)
			var bad []string
			for _, f := range p.Funcs {
				if f.Pkg != pk || f.Body == nil {
					continue
				}
				in := info(f)
				uses, locks := false, false
				ast.Inspect(f.Body, func(z ast.Node) bool {
					if id, ok := z.(*ast.Ident); ok && in.Uses[id] == types.Object(v) {
						uses = true
					}
					if call, ok := z.(*ast.CallExpr); ok {
						if _, k := mutexCall(in, call); k == "Lock" {
							locks = true
						}
					}
					return true
				})
				if uses && !locks {
					bad = append(bad, f.QName())
				}
			}
			pos := p.Pos(v.Pos())
			ob := Obligation{Key: "R68:" + pk.PkgPath + ":package-level random source " + v.Name(), Pos: pos, Func: pk.PkgPath, What: what, OK: len(bad) == 0, NonTrivial: true}
			if len(bad) > 0 {
				ob.Witness = "used without holding a lock in: " + strings.Join(bad, ", ")
			} else {
				ob.Witness = "every user takes a lock"
			}
			c.add(ob)
		}
	}
	if seen == 0 {
		c.add(Obligation{Key: "R68:no package-level random source", Pos: "-", Func: "-", What: what, OK: true, Witness: "no package-level *rand.Rand exists in the engine, value or schema packages (ids come from the global, goroutine-safe source)", NonTrivial: false})
	}
}

func ruleR69(c *Ctx) {
	p := c.P
	what := "after the product is handed out the builder starts over; resetting only some of its fields leaves the rest (the cursor to the last node) pointing into the product that was just returned, so the next product is wired to a node of the previous one"
	for _, f := range p.Funcs {
		if f.Obj == nil || f.Body == nil || f.Decl == nil || f.Decl.Recv == nil || !strings.HasSuffix(f.Pkg.PkgPath, "/schema") {
			continue
		}
		rn := recvNamed(f.Obj)
		if rn == nil {
			continue
		}
		st, ok := rn.Underlying().(*types.Struct)
		if !ok || len(f.Decl.Recv.List) == 0 || len(f.Decl.Recv.List[0].Names) == 0 {
			continue
		}
		in := info(f)
		recv := in.Defs[f.Decl.Recv.List[0].Names[0]]
		// does the body call a constructor of its own type?
		ctor := false
		inspectNoLit(f.Body, func(n ast.Node) bool {
			if call, ok := n.(*ast.CallExpr); ok {
				if fn := callee(in, call); fn != nil {
					if sig, ok := fn.Type().(*types.Signature); ok && sig.Recv() == nil && sig.Results().Len() == 1 {
						if pt, ok := sig.Results().At(0).Type().(*types.Pointer); ok {
							if n2 := namedOf(pt.Elem()); n2 != nil && n2.Obj() == rn.Obj() {
								ctor = true
							}
						}
					}
				}
			}
			return true
		})
		if !ctor {
			continue
		}
		whole := false
		assigned := map[string]bool{}
		inspectNoLit(f.Body, func(n ast.Node) bool {
			as, ok := n.(*ast.AssignStmt)
			if !ok {
				return true
			}
			for _, l := range as.Lhs {
				switch x := unparen(l).(type) {
				case *ast.StarExpr:
					if id, ok := unparen(x.X).(*ast.Ident); ok && objOf(in, id) == recv {
						whole = true
					}
				case *ast.SelectorExpr:
					if id, ok := unparen(x.X).(*ast.Ident); ok && objOf(in, id) == recv {
						assigned[x.Sel.Name] = true
					}
				}
			}
			return true
		})
		var missing []string
		for i := 0; i < st.NumFields(); i++ {
			if !assigned[st.Field(i).Name()] {
				missing = append(missing, st.Field(i).Name())
			}
		}
		okAll := whole || len(missing) == 0
		c.Check(okAll, f, f.Decl, "reset of the builder in "+f.Obj.Name(), what,
			ifElse(okAll, ifElse(whole, "the whole receiver is overwritten with a fresh builder", "every field is re-assigned"), "fields not reset: "+strings.Join(missing, ", ")))
	}
}

// ---- R70: snapshot completeness; R71: decode target freshness ----

func init() {
	register(&Rule{ID: "R70", Title: "snapshot completeness: the id generator's snapshot serialises the underlying generator's own snapshot value, not a hand-picked subset of its fields", Min: 1, Run: ruleR70})
	register(&Rule{ID: "R71", Title: "decode target freshness: a document is decoded into a fresh zero value, never into a value whose pointer fields alias package-level defaults", Min: 1, Run: ruleR71})
}

func ruleR70(c *Ctx) {
	p := c.P
	what := "a generator restored from a snapshot must not re-issue an id given out before the snapshot; that needs the wall-clock high-water mark and drift state, which only the underlying generator's Snapshot() value carries completely"
	for _, f := range p.Funcs {
		if f.Obj == nil || f.Obj.Name() != "Snapshot" || f.Pkg.PkgPath != pathID || f.Body == nil {
			continue
		}
		in := info(f)
		// only wrappers: the receiver has a field (or embeds a type) with a Snapshot method of its own
		wraps := false
		if rn := recvNamed(f.Obj); rn != nil {
			if st, ok := rn.Underlying().(*types.Struct); ok {
				for i := 0; i < st.NumFields(); i++ {
					ms := types.NewMethodSet(st.Field(i).Type())
					for j := 0; j < ms.Len(); j++ {
						if ms.At(j).Obj().Name() == "Snapshot" {
							wraps = true
						}
					}
				}
			}
		}
		if !wraps {
			continue
		}
		// the serialised value must be (derived from) a call of another Snapshot method
		ok := false
		inspectNoLit(f.Body, func(n ast.Node) bool {
			call, isCall := n.(*ast.CallExpr)
			if !isCall {
				return true
			}
			fn := callee(in, call)
			if fn == nil || !strings.HasPrefix(fn.Name(), "Marshal") {
				return true
			}
			for _, a := range call.Args {
				if exprMentionsAny(a, func(z ast.Node) bool {
					c2, isC := z.(*ast.CallExpr)
					if !isC {
						return false
					}
					f2 := callee(in, c2)
					return f2 != nil && f2.Name() == "Snapshot" && f2 != f.Obj
				}) {
					ok = true
				}
			}
			return true
		})
		c.Check(ok, f, f.Decl, "what the snapshot serialises", what, ifElse(ok, "the marshalled value is the underlying generator's Snapshot()", "the marshalled value is not the underlying generator's Snapshot()"))
	}
}

func ruleR71(c *Ctx) {
	p := c.P
	what := "encoding/xml writes attribute values *through* existing non-nil pointers; decoding into a value whose pointer fields point at package-level defaults overwrites those shared defaults, so every later (and earlier) model that aliases them reports the last parsed document's values"
	// functions that return a value holding the address of a package-level variable
	aliasing := map[*types.Func]string{}
	for _, f := range p.Funcs {
		if f.Obj == nil || f.Body == nil || !strings.HasSuffix(f.Pkg.PkgPath, "/schema") {
			continue
		}
		in := info(f)
		inspectNoLit(f.Body, func(n ast.Node) bool {
			u, ok := n.(*ast.UnaryExpr)
			if !ok || u.Op != token.AND {
				return true
			}
			if id, ok := unparen(u.X).(*ast.Ident); ok {
				if v, ok := in.Uses[id].(*types.Var); ok && v.Parent() == f.Pkg.Types.Scope() {
					aliasing[f.Obj] = v.Name()
				}
			}
			return true
		})
	}
	for _, f := range p.Funcs {
		if f.Body == nil || !(isTargetPkg(p, f.Pkg.PkgPath) || strings.HasSuffix(f.Pkg.PkgPath, "/schema")) {
			continue
		}
		in := info(f)
		inspectNoLit(f.Body, func(n ast.Node) bool {
			call, ok := n.(*ast.CallExpr)
			if !ok {
				return true
			}
			fn := callee(in, call)
			if fn == nil || fn.Pkg() == nil || fn.Pkg().Path() != "encoding/xml" || (fn.Name() != "Unmarshal" && fn.Name() != "Decode" && fn.Name() != "DecodeElement") || len(call.Args) == 0 {
				return true
			}
			dst := call.Args[len(call.Args)-1]
			if fn.Name() == "DecodeElement" {
				dst = call.Args[0]
			}
			r := rootIdent(dst)
			if r == nil {
				return true
			}
			v, ok := objOf(in, r).(*types.Var)
			if !ok || isParam(f, v) {
				return true // the caller chose the target
			}
			// initialiser of v
			from := ""
			inspectNoLit(f.Body, func(z ast.Node) bool {
				as, ok := z.(*ast.AssignStmt)
				if !ok {
					return true
				}
				for i, l := range as.Lhs {
					if lid, ok := l.(*ast.Ident); ok && objOf(in, lid) == types.Object(v) && i < len(as.Rhs) {
						if c2, ok := unparen(as.Rhs[i]).(*ast.CallExpr); ok {
							if f2 := callee(in, c2); f2 != nil {
								if nm, bad := aliasing[f2]; bad {
									from = f2.Name() + " (stores &" + nm + ")"
								}
							}
						}
					}
				}
				return true
			})
			c.Check(from == "", f, call, "target of "+fn.Name(), what, ifElse(from == "", "the target is a fresh value", "the target was produced by "+from))
			return true
		})
	}
}

// ---- R72: third-party generator draws are serialised ----

func init() {
	register(&Rule{ID: "R72", Title: "serialised draws: every draw from the third-party id generator happens while the wrapper's mutex is held (confirmed necessary: the generator repeats ids under concurrent draws, findings/F8)", Min: 1, Run: ruleR72})
}

func ruleR72(c *Ctx) {
	p := c.P
	what := "the sno generator hands out the same id to two goroutines when they draw while the sequence of a time unit rolls over (demonstrated: a few hundred duplicates per three million concurrent draws); the engine draws instance and flow ids from many goroutines, so each draw must be made under a lock"
	for _, f := range p.Funcs {
		if f.Pkg.PkgPath != pathID || f.Body == nil {
			continue
		}
		in := info(f)
		g := p.Graph(f)
		inspectNoLit(f.Body, func(n ast.Node) bool {
			call, ok := n.(*ast.CallExpr)
			if !ok {
				return true
			}
			fn := callee(in, call)
			if fn == nil || fn.Pkg() == nil || !strings.HasSuffix(fn.Pkg().Path(), "muyo/sno") {
				return true
			}
			rn := recvNamed(fn)
			if rn == nil || rn.Obj().Name() != "Generator" || !(fn.Name() == "New" || fn.Name() == "NewWithTime") {
				return true
			}
			// a Lock that dominates the call, with its release deferred or after the call on every path
			var node ast.Node = call
			for node != nil {
				if _, ok := g.PointOf(node); ok {
					break
				}
				node = p.Parent(node)
			}
			held := false
			if node != nil {
				cpt, _ := g.PointOf(node)
				inspectNoLit(f.Body, func(z ast.Node) bool {
					lc, ok := z.(*ast.CallExpr)
					if !ok {
						return true
					}
					lx, k := mutexCall(in, lc)
					if k != "Lock" {
						return true
					}
					var ln ast.Node = lc
					for ln != nil {
						if _, ok := g.PointOf(ln); ok {
							break
						}
						ln = p.Parent(ln)
					}
					if ln == nil {
						return true
					}
					lpt, _ := g.PointOf(ln)
					if !g.Dominates(lpt, cpt) {
						return true
					}
					// no Unlock between the Lock and the call
					reach, _ := g.Search(lpt, false, func(pt Point, nd ast.Node) Action {
						if nd == nil {
							return Prune
						}
						if nd == node {
							return Prune
						}
						if _, isDefer := nd.(*ast.DeferStmt); isDefer {
							return Continue
						}
						if nodeHasCall(p, nd, func(c2 *ast.CallExpr) bool {
							ux, k2 := mutexCall(in, c2)
							return k2 == "Unlock" && sameRef(in, ux, lx)
						}) {
							// an Unlock that can be reached before the call: does the call still follow it?
							if ok2, _ := g.Search(pt, false, func(_ Point, n3 ast.Node) Action {
								if n3 == node {
									return Found
								}
								return Continue
							}); ok2 {
								return Found
							}
						}
						return Continue
					})
					if !reach {
						held = true
					}
					return true
				})
			}
			c.Check(held, f, call, "draw from the sno generator ("+fn.Name()+")", what, ifElse(held, "a Lock of the wrapper's mutex dominates the draw and is not released before it", "no mutex is held at the draw"))
			return true
		})
	}
}

// ---- R73: one data scope per instance ----

func init() {
	register(&Rule{ID: "R73", Title: "one data scope per instance: a fresh data locator is created only for a new instance's options; nodes and embedded sub-processes use the locator of the scope they run in", Min: 2, Run: ruleR73})
}

func ruleR73(c *Ctx) {
	p := c.P
	what := "variables written on one side of a sub-process boundary are read by conditions on the other side; that only works when the sub-process uses the enclosing instance's locator itself — a fresh locator (even one seeded by a copy) is a stale snapshot"
	for _, f := range p.Funcs {
		if f.Pkg.PkgPath != pathBpmn || f.Body == nil {
			continue
		}
		in := info(f)
		inspectNoLit(f.Body, func(n ast.Node) bool {
			call, ok := n.(*ast.CallExpr)
			if !ok {
				return true
			}
			fn := callee(in, call)
			if fn == nil || fn.Name() != "NewFlowDataLocator" {
				return true
			}
			okSite := false
			if as, ok := p.Parent(call).(*ast.AssignStmt); ok {
				for _, l := range as.Lhs {
					if fv := fieldOf(in, l); fv != nil {
						if s, ok := unparen(l).(*ast.SelectorExpr); ok {
							if nt := namedOf(in.TypeOf(s.X)); nt != nil && nt.Obj().Name() == "Options" {
								okSite = true
							}
						}
					}
				}
			}
			c.Check(okSite, f, call, "creation of a data locator", what, ifElse(okSite, "stored into the options of a new instance", "a locator is created outside the construction of an instance's options"))
			return true
		})
	}
}

// ---- R74: no swallowed errors beyond the confirmed table ----

func init() {
	register(&Rule{ID: "R74", Title: "error discipline: an error returned to engine code is propagated, traced or handled; the sites that deliberately drop one are an explicit table, one reason each", Min: 150, Run: ruleR74})
}

// acceptedDrops: enclosing function -> callee -> reason (each confirmed by reading the code).
var acceptedDrops = map[string]map[string]string{
	// keyed by the enclosing declared function, or by "type:<pkg>.<Type>" for every method of that type (so that
	// extracting a helper method does not move a confirmed site out of the table)
	"bpmn.FetchTaskTimeout":            {"ParseDuration": "a malformed timeout attribute means 'no timeout' (0), the documented default"},
	"pkg/clock.changeMonitor":          {"Close": "closing the timerfd on the way out; nothing to do about a failure"},
	"type:pkg/clock.host":              {"Close": "closing the timerfd on the way out; nothing to do about a failure"},
	"type:bpmn.ProcessSet":             {"ConsumeEvent": "the outcome of delivering a thrown event to a sibling process (or of waking a registered catch event) is visible in that process's traces"},
	"type:schema.Value":                {"Unmarshal": "an undecodable stored text yields the empty container (R67 requires it to be non-nil)", "ParseInt": "the text was validated when it was stored (ValueFrom only stores text that parses)", "ParseFloat": "the text was validated when it was stored (ValueFrom only stores text that parses)"},
	"type:schema.TaskDefinition":       {"Unmarshal": "an undecodable metadata attribute yields the empty map / is replaced", "Marshal": "setter without an error result; metadata values are JSON-representable by contract"},
	"pkg/logic.NewCatchEventSatisfier": {"NewEventDefinitionInstance": "KNOWN FINDING Rerr: listed there, not accepted here"},
	"pkg/logic.NewThrowEventSatisfier": {"NewEventDefinitionInstance": "KNOWN FINDING Rerr: listed there, not accepted here"},
}

func acceptedDrop(f *FuncInfo, calleeName string) (string, bool) {
	root := f.Root()
	if r, ok := acceptedDrops[root.QName()][calleeName]; ok {
		return r, true
	}
	if root.Obj != nil {
		if rn := recvNamed(root.Obj); rn != nil {
			if r, ok := acceptedDrops["type:"+shortPkg(root.Pkg.PkgPath)+"."+rn.Obj().Name()][calleeName]; ok {
				return r, true
			}
		}
	}
	return "", false
}

func ruleR74(c *Ctx) {
	p := c.P
	what := "an error that a callee reports must not vanish: it is returned, sent as an ErrorTrace, or handled; a result assigned to `_` (or a call used as a statement) hides a failed step, and the code goes on with a zero value"
	errT := types.Universe.Lookup("error").Type()
	for _, f := range p.Funcs {
		if f.Body == nil || !(isTargetPkg(p, f.Pkg.PkgPath) || strings.HasSuffix(f.Pkg.PkgPath, "/schema")) {
			continue
		}
		if strings.Contains(p.Pos(f.Body.Pos()), "_generated") {
			continue
		}
		in := info(f)
		ast.Inspect(f.Body, func(n ast.Node) bool {
			if _, isLit := n.(*ast.FuncLit); isLit && n != ast.Node(f.Lit) {
				return false
			}
			var call *ast.CallExpr
			dropped := false
			switch x := n.(type) {
			case *ast.ExprStmt:
				if cl, ok := unparen(x.X).(*ast.CallExpr); ok {
					call, dropped = cl, true
				}
			case *ast.AssignStmt:
				if len(x.Rhs) == 1 {
					if cl, ok := unparen(x.Rhs[0]).(*ast.CallExpr); ok {
						call = cl
						if t, ok := in.TypeOf(cl).(*types.Tuple); ok {
							if t.Len() == len(x.Lhs) && t.Len() > 0 && types.Identical(t.At(t.Len()-1).Type(), errT) {
								if id, ok := x.Lhs[len(x.Lhs)-1].(*ast.Ident); ok && id.Name == "_" {
									dropped = true
								}
							}
						} else if len(x.Lhs) == 1 && in.TypeOf(cl) != nil && types.Identical(in.TypeOf(cl), errT) {
							if id, ok := x.Lhs[0].(*ast.Ident); ok && id.Name == "_" {
								dropped = true
							}
						}
					}
				}
			}
			if call == nil {
				return true
			}
			// does the callee return an error at all?
			rt := in.TypeOf(call)
			hasErr := false
			switch t := rt.(type) {
			case *types.Tuple:
				hasErr = t.Len() > 0 && types.Identical(t.At(t.Len()-1).Type(), errT)
			default:
				hasErr = rt != nil && types.Identical(rt, errT)
			}
			if !hasErr {
				return true
			}
			fn := callee(in, call)
			name := "call"
			if fn != nil {
				name = fn.Name()
			}
			// formatted printing to a writer / hash / builder and deferred-style closes are not the engine's errors
			if fn != nil && fn.Pkg() != nil {
				switch fn.Pkg().Path() {
				case "fmt", "strings", "bytes", "hash", "io":
					return true
				}
			}
			root := f.Root().QName()
			if !dropped {
				c.Ok(f, call, "error of "+name, what, "the error result is bound to a variable", false)
				return true
			}
			reason, ok := acceptedDrop(f, name)
			if ok && !strings.HasPrefix(reason, "KNOWN FINDING") {
				c.Ok(f, call, "dropped error of "+name, what, "accepted: "+reason, true)
			} else if ok {
				// reported by Rerr; do not report the same construct twice
				c.Ok(f, call, "dropped error of "+name, what, "reported by rule Rerr (known finding)", false)
			} else {
				c.Bad(f, call, "dropped error of "+name, what, "the error result of "+name+" is discarded in "+root+" and this site is not in the table of confirmed deliberate drops")
			}
			return true
		})
	}
}

// ---- R76: atomic counter pairing; R77: completion verdict ----

func init() {
	register(&Rule{ID: "R76", Title: "counter pairing: a deferred decrement of an atomic activity counter is preceded by the matching increment in the same goroutine, and an increment is released on every exit", Min: 2, Run: ruleR76})
	register(&Rule{ID: "R77", Title: "completion verdict: WaitUntilComplete answers false in the clause that saw the caller's context end and true only in the clause that saw completion", Min: 2, Run: ruleR77})
}

func atomicAddDelta(in *types.Info, call *ast.CallExpr) (x ast.Expr, sign int) {
	fn := callee(in, call)
	if fn == nil || fn.Pkg() == nil || fn.Pkg().Path() != "sync/atomic" || fn.Name() != "Add" || len(call.Args) != 1 {
		return nil, 0
	}
	s, ok := unparen(call.Fun).(*ast.SelectorExpr)
	if !ok {
		return nil, 0
	}
	tv := in.Types[call.Args[0]]
	if tv.Value == nil {
		return nil, 0
	}
	v := tv.Value.ExactString()
	if strings.HasPrefix(v, "-") {
		return s.X, -1
	}
	return s.X, 1
}

func ruleR76(c *Ctx) {
	p := c.P
	what := "the number of requests in flight (which Cancel and the boundary logic read) is only right when every goroutine that counts itself in also counts itself out exactly once, and never counts out without having counted in"
	for _, f := range p.Funcs {
		if f.Pkg.PkgPath != pathBpmn || f.Body == nil {
			continue
		}
		in := info(f)
		g := p.Graph(f)
		inspectNoLit(f.Body, func(n ast.Node) bool {
			call, ok := n.(*ast.CallExpr)
			if !ok {
				return true
			}
			x, sign := atomicAddDelta(in, call)
			if sign == 0 {
				return true
			}
			_, deferred := p.Parent(call).(*ast.DeferStmt)
			var node ast.Node = call
			for node != nil {
				if _, ok := g.PointOf(node); ok {
					break
				}
				node = p.Parent(node)
			}
			if node == nil {
				return true
			}
			pt, _ := g.PointOf(node)
			same := func(nd ast.Node, want int) bool {
				return nodeHasCall(p, nd, func(c2 *ast.CallExpr) bool {
					x2, s2 := atomicAddDelta(in, c2)
					return s2 == want && sameRef(in, x2, x)
				})
			}
			if sign < 0 {
				// a matching increment dominates the decrement
				found := false
				for _, q := range g.AllPoints() {
					if q != pt && same(q.Node(), 1) {
						if _, isDefer := q.Node().(*ast.DeferStmt); !isDefer && g.Dominates(q, pt) {
							found = true
						}
					}
				}
				c.Check(found, f, call, ifElse(deferred, "deferred ", "")+"decrement of "+exprString(x), what, ifElse(found, "an increment of the same counter dominates it", "no increment of the same counter precedes it in this goroutine"))
			} else {
				bad := g.MustPassBeforeExit(pt, false, func(nd ast.Node) bool { return same(nd, -1) })
				c.Check(len(bad) == 0, f, call, "increment of "+exprString(x), what, ifElse(len(bad) == 0, "every exit passes the matching decrement (defer or explicit)", "an exit is reached without the matching decrement: "+witnessLines(g, bad[:min(1, len(bad))])))
			}
			return true
		})
	}
}

func ruleR77(c *Ctx) {
	p := c.P
	what := "WaitUntilComplete returns true iff the instance (set) completed; the clause of its select that saw the caller's context end must answer false, and only the clause that received the completion signal may answer true"
	for _, f := range p.Funcs {
		if f.Obj == nil || f.Obj.Name() != "WaitUntilComplete" || f.Pkg.PkgPath != pathBpmn || f.Body == nil {
			continue
		}
		in := info(f)
		var res *types.Var
		if f.Decl.Type.Results != nil && len(f.Decl.Type.Results.List) == 1 && len(f.Decl.Type.Results.List[0].Names) == 1 {
			res, _ = in.Defs[f.Decl.Type.Results.List[0].Names[0]].(*types.Var)
		}
		inspectNoLit(f.Body, func(n ast.Node) bool {
			cc, ok := n.(*ast.CommClause)
			if !ok || cc.Comm == nil {
				return true
			}
			isDone := isDoneComm(p, f, cc.Comm)
			// ps.done is a completion signal, not the caller's context: only ctx.Done() counts as "ended"
			ctxDone := exprMentionsAny(cc.Comm, func(z ast.Node) bool {
				e, ok := z.(ast.Expr)
				return ok && isCtxDoneCall(in, e)
			})
			_ = isDone
			verdicts := []string{}
			for _, st := range cc.Body {
				inspectNoLit(st, func(z ast.Node) bool {
					switch y := z.(type) {
					case *ast.AssignStmt:
						for i, l := range y.Lhs {
							if id, ok := l.(*ast.Ident); ok && res != nil && objOf(in, id) == types.Object(res) && i < len(y.Rhs) {
								verdicts = append(verdicts, exprString(y.Rhs[i]))
							}
						}
					case *ast.ReturnStmt:
						for _, e := range y.Results {
							verdicts = append(verdicts, exprString(e))
						}
					}
					return true
				})
			}
			want := "true"
			if ctxDone {
				want = "false"
			}
			okV := len(verdicts) > 0
			if ctxDone && len(verdicts) == 0 {
				okV = true // the named result keeps its zero value
			}
			for _, v := range verdicts {
				if v != want {
					okV = false
				}
			}
			c.Check(okV, f, cc, ifElse(ctxDone, "verdict in the context-ended clause", "verdict in the completion clause"), what, fmt.Sprintf("verdicts assigned/returned in the clause: %v, expected %s", verdicts, want))
			return true
		})
	}
}
