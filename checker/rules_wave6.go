package main

// Rules added after the sixth (held-out) wave of seeded faults (letters i, j in /verif/seeded).
//
//	R124 an enabled additional flow whose target resolves is started
//	R125 no process-wide state is written on the execution path of an instance
//	R126 a failed task is reported before the token waits for the handler's decision
//	R127 a watcher leaves when its subscription is closed
//	R128 the inclusive join's tracker is created unconditionally
//	R10b a cancellation trace is only sent where a done-source was observed

import (
	"fmt"
	"go/ast"
	"go/token"
	"go/types"
	"sort"
	"strings"
)

func init() {
	register(&Rule{ID: "R124", Title: "resolved means started: once the target of an additional outgoing flow has been resolved, every path hands back the start function of the new token (or reports an error)", Min: 1, Run: ruleR124})
	register(&Rule{ID: "R125", Title: "no process-wide state on the execution path: nothing the token, a node's goroutine, or the code they call writes is a package-level variable (a cache keyed by too little, a memo shared by every instance)", Min: 1, Run: ruleR125})
	register(&Rule{ID: "R126", Title: "report before waiting: the ErrorTrace of a failed task is sent before the token waits for the error handler's decision (the handler may be deciding in reaction to that trace)", Min: 1, Run: ruleR126})
	register(&Rule{ID: "R127", Title: "a watcher ends with its subscription: in a loop that receives from a tracer subscription, the branch that sees the channel closed leaves the loop", Min: 2, Run: ruleR127})
	register(&Rule{ID: "R128", Title: "collaborators are wired unconditionally: the flow tracker of an inclusive gateway is created for every gateway, not depending on the shape of its wiring", Min: 1, Run: ruleR128})
	register(&Rule{ID: "R10b", Title: "cancellation means cancellation: a CancellationFlowTrace is sent only in a clause that observed a done-source; a token that is given up for any other reason ends with a TerminationTrace (the inclusive join's tracker removes tokens on that trace only)", Min: 1, Run: ruleR10b})
}

func ruleR124(c *Ctx) {
	p := c.P
	what := "every outgoing flow of a fork that is enabled gets a token, also when two flows lead to the same node or back to the node the token stands on; a path that returns without the start function for a resolved target silently drops that token: a task runs once instead of twice, or a downstream join waits for ever"
	n := 0
	for _, f := range p.Funcs {
		if f.Obj == nil || f.Body == nil || f.Pkg.PkgPath != pathBpmn {
			continue
		}
		// functions that return a start handle: a result of type func(context.Context)
		sig := f.Obj.Type().(*types.Signature)
		var handle *types.Var
		for i := 0; i < sig.Results().Len(); i++ {
			rt := sig.Results().At(i).Type().Underlying()
			if sl, isSl := rt.(*types.Slice); isSl {
				// a list of start functions, one per flow that will flow
				rt = sl.Elem().Underlying()
			}
			if fs, ok := rt.(*types.Signature); ok && fs.Params().Len() == 1 && isNamed(fs.Params().At(0).Type(), "context", "Context") && fs.Results().Len() == 0 {
				handle = sig.Results().At(i)
			}
		}
		if handle == nil || handle.Name() == "" {
			continue
		}
		in := info(f)
		g := p.Graph(f)
		inspectNoLit(f.Body, func(m ast.Node) bool {
			as, ok := m.(*ast.AssignStmt)
			if !ok || len(as.Rhs) != 1 || len(as.Lhs) != 2 {
				return true
			}
			cl, ok := unparen(as.Rhs[0]).(*ast.CallExpr)
			if !ok || callee(in, cl) == nil || callee(in, cl).Name() != "ResolveElementToFlowNode" {
				return true
			}
			foundId, ok := as.Lhs[1].(*ast.Ident)
			if !ok {
				return true
			}
			fobj := objOf(in, foundId)
			// the if statement that tests `found`: the assignment is its init, or it follows in the same list
			var ifs *ast.IfStmt
			var rest []ast.Stmt
			if pi, ok := p.Parent(as).(*ast.IfStmt); ok && pi.Init == ast.Stmt(as) {
				ifs = pi
			}
			var listOf func(n ast.Node) []ast.Stmt
			listOf = func(n ast.Node) []ast.Stmt {
				switch x := p.Parent(n).(type) {
				case *ast.BlockStmt:
					return x.List
				case *ast.CaseClause:
					return x.Body
				}
				return nil
			}
			anchor := ast.Node(as)
			if ifs != nil {
				anchor = ifs
			}
			if list := listOf(anchor); list != nil {
				for k, st := range list {
					if st == anchor.(ast.Stmt) {
						if ifs == nil && k+1 < len(list) {
							ifs, _ = list[k+1].(*ast.IfStmt)
							if ifs != nil && k+2 <= len(list) {
								rest = list[k+2:]
							}
						} else if ifs != nil {
							rest = list[k+1:]
						}
					}
				}
			}
			if ifs == nil {
				return true
			}
			neg := false
			cnd := unparen(ifs.Cond)
			if u, ok := cnd.(*ast.UnaryExpr); ok && u.Op == token.NOT {
				neg, cnd = true, unparen(u.X)
			}
			if id, ok := cnd.(*ast.Ident); !ok || objOf(in, id) != fobj {
				return true
			}
			var body []ast.Stmt
			if !neg {
				body = ifs.Body.List
			} else if els, ok := ifs.Else.(*ast.BlockStmt); ok {
				body = els.List
			} else if leavesBlock(ifs.Body) {
				body = rest
			}
			n++
			if len(body) == 0 {
				c.Bad(f, ifs, "resolved target of an additional flow", what, "the branch for a resolved target was not found or is empty")
				return true
			}
			entry, ok := g.EntryOfStmts(body)
			if !ok {
				c.Bad(f, ifs, "resolved target of an additional flow", what, "empty branch")
				return true
			}
			isSet := func(nd ast.Node) bool {
				if a2, ok := nd.(*ast.AssignStmt); ok {
					for _, l := range a2.Lhs {
						if id, ok := unparen(l).(*ast.Ident); ok && objOf(in, id) == types.Object(handle) {
							return true
						}
					}
				}
				return isErrorTraceSend(in, nd)
			}
			bad := g.RegionPaths(entry, regionOfStmts(body), isSet)
			if len(bad) > 0 && isSet(entry.Node()) {
				bad = nil
			}
			c.Check(len(bad) == 0, f, ifs, "resolved target of an additional flow", what, ifElse(len(bad) == 0, "every path through the 'found' branch assigns "+handle.Name(), "a path leaves the 'found' branch without assigning "+handle.Name()+": "+witnessLines(g, bad)))
			return true
		})
	}
	if n == 0 {
		c.Missing("additional-flow creation", "no function that resolves a target and returns a start function was found")
	}
}

// execReach: functions reachable by static calls (any target package) from the engine's execution path: methods of
// tokens and nodes, except constructors.
func execReach(p *Prog) map[*FuncInfo]string {
	reach := map[*FuncInfo]string{}
	var queue []*FuncInfo
	ll := longLivedTypes(p)
	for _, f := range p.Funcs {
		if f.Obj == nil || f.Body == nil || f.Pkg.PkgPath != pathBpmn {
			continue
		}
		r := recvNamed(f.Obj)
		if r == nil || !ll[r] || isConstructorLike(f) {
			continue
		}
		reach[f] = f.QName()
		queue = append(queue, f)
	}
	for len(queue) > 0 {
		f := queue[0]
		queue = queue[1:]
		in := info(f)
		ast.Inspect(f.Body, func(m ast.Node) bool {
			cl, ok := m.(*ast.CallExpr)
			if !ok {
				return true
			}
			fn := callee(in, cl)
			if fn == nil {
				return true
			}
			cf := p.byObj[fn]
			if cf == nil || cf.Body == nil || reach[cf] != "" || !isTargetPkg(p, cf.Pkg.PkgPath) {
				return true
			}
			if strings.HasPrefix(fn.Name(), "Register") || fn.Name() == "init" {
				return true
			}
			reach[cf] = reach[f] + " -> " + cf.QName()
			queue = append(queue, cf)
			return true
		})
	}
	return reach
}

func ruleR125(c *Ctx) {
	p := c.P
	what := "instances are isolated from each other and tokens run concurrently: state that outlives an instance must be a registry filled at start-up, never something the execution path writes. A memo of compiled conditions keyed by the source text alone hands the XPath engine's compiled object to the expr engine; a package-level scratch buffer is shared by every token of every instance"
	reach := execReach(p)
	n := 0
	var fs []*FuncInfo
	for f := range reach {
		fs = append(fs, f)
	}
	sort.Slice(fs, func(i, j int) bool { return fs[i].QName() < fs[j].QName() })
	for _, f := range fs {
		n++
		in := info(f)
		var bad []string
		ast.Inspect(f.Body, func(m ast.Node) bool {
			var target ast.Expr
			switch x := m.(type) {
			case *ast.AssignStmt:
				for _, l := range x.Lhs {
					t := unparen(l)
					if ix, ok := t.(*ast.IndexExpr); ok {
						t = unparen(ix.X)
					}
					target = t
					if id, ok := target.(*ast.Ident); ok {
						if v, ok := in.Uses[id].(*types.Var); ok && !v.IsField() && v.Pkg() != nil && v.Parent() == v.Pkg().Scope() {
							bad = append(bad, v.Name()+" at "+p.Pos(x.Pos()))
						}
					}
				}
			case *ast.IncDecStmt:
				if id, ok := unparen(x.X).(*ast.Ident); ok {
					if v, ok := in.Uses[id].(*types.Var); ok && !v.IsField() && v.Pkg() != nil && v.Parent() == v.Pkg().Scope() {
						bad = append(bad, v.Name()+" at "+p.Pos(x.Pos()))
					}
				}
			case *ast.CallExpr:
				if isBuiltin(in, x, "delete") && len(x.Args) > 0 {
					if id, ok := unparen(x.Args[0]).(*ast.Ident); ok {
						if v, ok := in.Uses[id].(*types.Var); ok && !v.IsField() && v.Pkg() != nil && v.Parent() == v.Pkg().Scope() {
							bad = append(bad, v.Name()+" at "+p.Pos(x.Pos()))
						}
					}
				}
			}
			return true
		})
		if len(bad) > 0 {
			sort.Strings(bad)
			c.Bad(f, f.Body, "package-level state written on the execution path", what, "written: "+strings.Join(bad, ", ")+"; reached through "+reach[f])
		}
	}
	c.Ok(nil, nil, "functions on the execution path", what, fmt.Sprintf("%d functions reachable by static calls from the methods of tokens and nodes were inspected", n), true)
}

func ruleR126(c *Ctx) {
	p := c.P
	what := "the client that answers a failing task learns about the failure from the ErrorTrace and may only then send its decision (retry, skip, exit) on the handler channel; a token that waits for the decision first and reports afterwards waits for a client that is waiting for the report"
	n := 0
	for _, root := range tokenRoots(p) {
		in := info(root)
		g := p.Graph(root)
		for _, pt := range g.AllPoints() {
			nd := pt.Node()
			if nd == nil {
				continue
			}
			// a receive from a chan ErrHandler (comm of a select clause or plain)
			isHandlerRecv := false
			ast.Inspect(nd, func(m ast.Node) bool {
				if _, isLit := m.(*ast.FuncLit); isLit {
					return false
				}
				if u, ok := m.(*ast.UnaryExpr); ok && u.Op == token.ARROW {
					if ct, ok := in.TypeOf(u.X).Underlying().(*types.Chan); ok && isNamed(ct.Elem(), pathBpmn, "ErrHandler") {
						isHandlerRecv = true
					}
				}
				return true
			})
			if !isHandlerRecv {
				continue
			}
			n++
			reported := false
			for _, q := range g.AllPoints() {
				if isErrorTraceSend(in, q.Node()) && g.Dominates(q, pt) && q != pt {
					reported = true
				}
			}
			c.Check(reported, root, nd, "wait for the error handler's decision", what, ifElse(reported, "dominated by Send(ErrorTrace)", "no Send(ErrorTrace) dominates the receive from the handler channel"))
		}
	}
	if n == 0 {
		c.Missing("handler wait", "no receive from a chan ErrHandler was found in the token goroutine")
	}
}

func ruleR127(c *Ctx) {
	p := c.P
	what := "when a tracer terminates it closes every subscriber's channel: that is how a watcher learns that nothing more will come and ends. A watcher that only stops listening to the closed channel and keeps waiting for some other signal (a shutdown that is sent only if its gateway was ever visited) outlives the instance"
	n := 0
	for _, f := range p.Funcs {
		if f.Body == nil || f.Pkg.PkgPath != pathBpmn {
			continue
		}
		in := info(f)
		inspectNoLit(f.Body, func(m ast.Node) bool {
			cc, ok := m.(*ast.CommClause)
			if !ok || cc.Comm == nil {
				return true
			}
			as, ok := cc.Comm.(*ast.AssignStmt)
			if !ok || len(as.Lhs) != 2 || len(as.Rhs) != 1 {
				return true
			}
			u, ok := unparen(as.Rhs[0]).(*ast.UnaryExpr)
			if !ok || u.Op != token.ARROW {
				return true
			}
			ct, ok := in.TypeOf(u.X).Underlying().(*types.Chan)
			if !ok || !isITrace(ct.Elem()) {
				return true
			}
			okId, ok := as.Lhs[1].(*ast.Ident)
			if !ok || okId.Name == "_" {
				return true
			}
			loop := innermostLoop(p, cc)
			if loop == nil {
				return true
			}
			n++
			// the `!ok` branch
			leaves, found := false, false
			for _, st := range cc.Body {
				ifs, isIf := st.(*ast.IfStmt)
				if !isIf {
					continue
				}
				un, isNot := unparen(ifs.Cond).(*ast.UnaryExpr)
				if !isNot || un.Op != token.NOT {
					continue
				}
				if id, isId := unparen(un.X).(*ast.Ident); !isId || objOf(in, id) != objOf(in, okId) {
					continue
				}
				found = true
				if len(ifs.Body.List) > 0 {
					switch last := ifs.Body.List[len(ifs.Body.List)-1].(type) {
					case *ast.ReturnStmt:
						leaves = true
					case *ast.BranchStmt:
						if (last.Tok == token.BREAK && last.Label != nil) || last.Tok == token.GOTO {
							leaves = true
						}
					}
				}
			}
			if !found {
				c.Bad(f, cc, "closed subscription in a watcher loop", what, "the ok result of the receive is not tested with `if !ok { ... }` at the top level of the clause")
				return true
			}
			c.Check(leaves, f, cc, "closed subscription in a watcher loop", what, ifElse(leaves, "the !ok branch leaves the function / the loop", "the !ok branch stays in the loop"))
			return true
		})
	}
	if n == 0 {
		c.Missing("watcher loops", "no select clause receiving `v, ok` from a trace subscription inside a loop was found")
	}
}

func ruleR128(c *Ctx) {
	p := c.P
	what := "an inclusive gateway asks its tracker which tokens of the cohort are still alive, whatever its wiring looks like: two branches can run into one task that leads to the join over a single incoming flow. A gateway without a tracker treats every arriving token as its own cohort and fires once per token"
	n := 0
	for _, f := range p.Funcs {
		if f.Body == nil || f.Pkg.PkgPath != pathBpmn {
			continue
		}
		in := info(f)
		inspectNoLit(f.Body, func(m ast.Node) bool {
			cl, ok := m.(*ast.CallExpr)
			if !ok {
				return true
			}
			fn := callee(in, cl)
			if fn == nil || fn.Pkg() == nil || fn.Pkg().Path() != pathBpmn {
				return true
			}
			sig := fn.Type().(*types.Signature)
			if sig.Results().Len() != 1 {
				return true
			}
			rt := namedOf(sig.Results().At(0).Type())
			if rt == nil || rt.Obj().Name() != "flowTracker" {
				return true
			}
			n++
			var conds []string
			for _, cnd := range controlConds(p, f, cl) {
				// error guards (`if err != nil { return }`) do not make the wiring depend on the model's shape
				if be, ok := unparen(cndExpr(cnd)).(*ast.BinaryExpr); ok && (be.Op == token.NEQ || be.Op == token.EQL) && (isNilIdent(be.Y) || isNilIdent(be.X)) {
					continue
				}
				conds = append(conds, exprString(cndExpr(cnd)))
			}
			c.Check(len(conds) == 0, f, cl, "creation of the flow tracker", what, ifElse(len(conds) == 0, "unconditional", "created only under "+strings.Join(conds, ", ")))
			return true
		})
	}
	if n == 0 {
		c.Missing("flow tracker creation", "no call of a function returning *flowTracker was found")
	}
}

func ruleR10b(c *Ctx) {
	p := c.P
	what := "observers tell 'the context ended' from 'this token ended': the inclusive join's tracker takes a token out of its picture on TerminationTrace only. A token that is given up by its error handler and reports itself as cancelled stays alive in that picture, and the join waits for it for ever"
	n := 0
	for _, root := range tokenRoots(p) {
		in := info(root)
		g := p.Graph(root)
		for _, pt := range g.AllPoints() {
			if _, ok := nodeSendsTrace(in, pt.Node(), "CancellationFlowTrace"); !ok {
				continue
			}
			n++
			inDone := false
			for cur := p.Parent(pt.Node()); cur != nil && cur != ast.Node(root.Body); cur = p.Parent(cur) {
				if cc, ok := cur.(*ast.CommClause); ok && cc.Comm != nil && isDoneComm(p, root, cc.Comm) {
					inDone = true
				}
			}
			c.Check(inDone, root, pt.Node(), "Send(CancellationFlowTrace)", what, ifElse(inDone, "in a clause that received from a done-source", "outside any done-source clause"))
		}
	}
	if n == 0 {
		c.Missing("cancellation trace", "no Send(CancellationFlowTrace) was found in the token goroutine")
	}
}

// ---- R129 .. R133 ----

func init() {
	register(&Rule{ID: "R129", Title: "the parent resumes on the sub-process's cease only: the arm of the trace relay that ends an activation handles CeaseFlowTrace and nothing else", Min: 1, Run: ruleR129})
	register(&Rule{ID: "R130", Title: "chains are sized by the satisfier: every bit set appended to a satisfier's chains is created with the satisfier's number of definitions", Min: 2, Run: ruleR130})
	register(&Rule{ID: "R131", Title: "encoded text is not encoded again: ValueFrom (Go value -> item text) is never applied to the already encoded text of an item", Min: 3, Run: ruleR131})
	register(&Rule{ID: "R132", Title: "wait after the count: the goroutine that waits for the flow wait group is launched after the loop that counts the start events, not inside it", Min: 2, Run: ruleR132})
	register(&Rule{ID: "R133", Title: "a replacement takes nothing from what it replaces: the item stored for a variable is built from the value being stored, not from the item currently stored under that name", Min: 1, Run: ruleR133})
}

func ruleR129(c *Ctx) {
	p := c.P
	what := "inner end events and the surplus tokens of an inner join emit CompletionTrace long before the sub-process is done; the activation must go on relaying until the sub-process's own completion monitor says CeaseFlowTrace. An arm that also ends on CompletionTrace (or any other trace) lets the parent token leave while inner tokens are still running"
	n := 0
	for _, f := range p.Funcs {
		if f.Body == nil || f.Pkg.PkgPath != pathBpmn {
			continue
		}
		r := f.Root()
		if r.Obj == nil || recvNamed(r.Obj) == nil || recvNamed(r.Obj).Obj().Name() != "subProcess" {
			continue
		}
		for _, arms := range typeDispatches(p, f, isITrace) {
			for _, a := range arms {
				// does the arm leave the relay loop (labelled break, return true, or plain return in a helper)?
				leaves, plainReturn, answers := false, false, false
				for _, st := range a.Body {
					inspectNoLit(st, func(m ast.Node) bool {
						switch x := m.(type) {
						case *ast.BranchStmt:
							if x.Tok == token.BREAK && x.Label != nil {
								leaves = true
							}
						case *ast.ReturnStmt:
							if len(x.Results) == 1 {
								if id, ok := unparen(x.Results[0]).(*ast.Ident); ok && id.Name == "true" {
									leaves = true
								}
							}
							if len(x.Results) == 0 {
								plainReturn = true
							}
						case *ast.SendStmt:
							if isReplyChan(info(f).TypeOf(x.Chan)) {
								answers = true
							}
						}
						return true
					})
				}
				// the arm answers the parent's token itself and returns (what followed the loop was moved into it)
				if plainReturn && answers {
					leaves = true
				}
				if !leaves {
					continue
				}
				n++
				only := len(a.Types) == 1 && isNamed(a.Types[0], pathBpmn, "CeaseFlowTrace")
				var ts []string
				for _, t := range a.Types {
					ts = append(ts, typeString(t))
				}
				c.Check(only, f, a.Node, "arm that ends the activation's relay", what, "handles "+strings.Join(ts, ", "))
			}
		}
	}
	if n == 0 {
		c.Missing("relay end arm", "no arm of a trace dispatch in the sub-process that leaves the relay loop was found")
	}
}

func ruleR130(c *Ctx) {
	p := c.P
	what := "All() of a chain asks whether every bit of the set's LENGTH is set: a chain created with room for all definitions is complete when every definition has been matched; one that is sized 'as needed' by its first Set is complete as soon as the definitions up to the highest matched one are in — a parallel-multiple catch fires with a definition never matched"
	n := 0
	for _, f := range p.Funcs {
		if f.Body == nil || f.Pkg.PkgPath != pathLogic {
			continue
		}
		in := info(f)
		isSizedNew := func(e ast.Expr) bool {
			cl, ok := unparen(e).(*ast.CallExpr)
			if !ok || len(cl.Args) != 1 {
				return false
			}
			fn := callee(in, cl)
			if fn == nil || fn.Name() != "New" || fn.Pkg() == nil || !strings.HasSuffix(fn.Pkg().Path(), "bitset") {
				return false
			}
			return fieldOf(in, cl.Args[0]) != nil
		}
		inspectNoLit(f.Body, func(m ast.Node) bool {
			cl, ok := m.(*ast.CallExpr)
			if !ok || !isBuiltin(in, cl, "append") || len(cl.Args) < 2 {
				return true
			}
			fv := fieldOf(in, cl.Args[0])
			if fv == nil {
				return true
			}
			sl, ok := fv.Type().Underlying().(*types.Slice)
			if !ok {
				return true
			}
			pt, ok := sl.Elem().Underlying().(*types.Pointer)
			if !ok || namedOf(pt.Elem()) == nil || namedOf(pt.Elem()).Obj().Name() != "BitSet" {
				return true
			}
			for _, a := range cl.Args[1:] {
				n++
				ok2 := isSizedNew(a)
				if id, isId := unparen(a).(*ast.Ident); isId && !ok2 {
					defs, _ := localDefs(in, f.Root().Body, objOf(in, id))
					ok2 = len(defs) > 0
					for _, d := range defs {
						if !isSizedNew(d) {
							ok2 = false
						}
					}
				}
				c.Check(ok2, f, cl, "bit set appended to "+fv.Name(), what, ifElse(ok2, "created by bitset.New(<number of definitions>)", "appended value "+exprString(a)+" is not created by bitset.New with the satisfier's length"))
			}
			return true
		})
	}
	if n == 0 {
		c.Missing("chain creation", "no append to a []*bitset.BitSet field was found in pkg/logic")
	}
}

func ruleR131(c *Ctx) {
	p := c.P
	what := "an item's text IS its canonical encoding (a JSON object literal for type=object, digits for integer); ValueFrom converts a Go value into that encoding and has no case for 'a string that already is the encoding' of an object — fed the stored text it drops it, and the declared literal of a typed property reads back empty"
	n := 0
	for _, f := range p.Funcs {
		if f.Body == nil || !(isTargetPkg(p, f.Pkg.PkgPath) || strings.HasSuffix(f.Pkg.PkgPath, "/schema")) {
			continue
		}
		in := info(f)
		inspectNoLit(f.Body, func(m ast.Node) bool {
			cl, ok := m.(*ast.CallExpr)
			if !ok || len(cl.Args) != 1 {
				return true
			}
			fn := callee(in, cl)
			if fn == nil || fn.Name() != "ValueFrom" {
				return true
			}
			n++
			bad := ""
			if fv := fieldOf(in, cl.Args[0]); fv != nil {
				owner := ""
				if sel, ok := unparen(cl.Args[0]).(*ast.SelectorExpr); ok {
					if nt := namedOf(in.TypeOf(sel.X)); nt != nil {
						owner = nt.Obj().Name()
					}
				}
				if (owner == "Item" && fv.Name() == "Value") || (owner == "Value" && fv.Name() == "ItemValue") {
					bad = owner + "." + fv.Name()
				}
			}
			c.Check(bad == "", f, cl, "argument of ValueFrom", what, ifElse(bad == "", "a Go value: "+exprString(cl.Args[0]), "the encoded text "+bad))
			return true
		})
	}
	if n == 0 {
		c.Missing("ValueFrom calls", "no call of ValueFrom was found")
	}
}

func ruleR132(c *Ctx) {
	p := c.P
	what := "the flow wait group is zero between the end of one start event's branch and the moment the next start event adds its token; a Wait() started as soon as the first start event was seen can return in that gap, and the monitor then reports completion the instant the last start event has fired — with that start event's token still waiting at a task"
	n := 0
	for _, f := range p.Funcs {
		if f.Body == nil || f.Pkg.PkgPath != pathBpmn {
			continue
		}
		in := info(f)
		sendsCease := false
		for _, pt := range p.Graph(f).AllPoints() {
			if _, ok := nodeSendsTraceDirect(in, pt.Node(), "CeaseFlowTrace"); ok {
				sendsCease = true
			}
		}
		if !sendsCease {
			continue
		}
		inspectNoLit(f.Body, func(m ast.Node) bool {
			gs, ok := m.(*ast.GoStmt)
			if !ok {
				return true
			}
			waits := false
			ast.Inspect(gs.Call, func(z ast.Node) bool {
				if cl, ok := z.(*ast.CallExpr); ok && isSyncMethod(in, cl, "WaitGroup", "Wait") {
					waits = true
				}
				return true
			})
			if !waits {
				return true
			}
			n++
			loop := innermostLoop(p, gs)
			c.Check(loop == nil, f, gs, "launch of the wait for the flow wait group", what, ifElse(loop == nil, "outside any loop, after the counting loop", "inside the loop at "+p.Pos(gs.Pos())))
			return true
		})
	}
	if n == 0 {
		c.Missing("wait launch", "no go statement waiting on a WaitGroup in a completion monitor was found")
	}
}

func ruleR133(c *Ctx) {
	p := c.P
	what := "storing a value replaces the variable: the new item carries the type of the new value. An item that inherits the type of the item it replaces makes ValueFrom take its declared-type path, which ignores a value of another kind — the later answer is silently lost and the variable reads as the zero value of its old type"
	n := 0
	for _, f := range p.Funcs {
		if f.Obj == nil || f.Body == nil || f.Pkg.PkgPath != pathData || f.Obj.Name() != "SetVariable" {
			continue
		}
		in := info(f)
		// locals that hold (something of) the currently stored item
		stored := map[types.Object]bool{}
		inspectNoLit(f.Body, func(m ast.Node) bool {
			if as, ok := m.(*ast.AssignStmt); ok && len(as.Rhs) == 1 {
				e := unparen(as.Rhs[0])
				if ta, ok := e.(*ast.TypeAssertExpr); ok {
					e = unparen(ta.X)
				}
				if ix, ok := e.(*ast.IndexExpr); ok {
					if fv := fieldOf(in, ix.X); fv != nil {
						if _, isMap := fv.Type().Underlying().(*types.Map); isMap {
							if id, ok := unparen(as.Lhs[0]).(*ast.Ident); ok && id.Name != "_" {
								stored[objOf(in, id)] = true
							}
						}
					}
				}
			}
			return true
		})
		n++
		var bad []string
		inspectNoLit(f.Body, func(m ast.Node) bool {
			as, ok := m.(*ast.AssignStmt)
			if !ok || len(as.Lhs) != len(as.Rhs) {
				return true
			}
			for i, l := range as.Lhs {
				if fieldOf(in, l) == nil {
					continue
				}
				if exprMentions(as.Rhs[i], func(z ast.Node) bool {
					id, ok := z.(*ast.Ident)
					return ok && stored[objOf(in, id)]
				}) {
					bad = append(bad, exprString(l)+" = "+exprString(as.Rhs[i])+" at "+p.Pos(as.Pos()))
				}
			}
			return true
		})
		sort.Strings(bad)
		c.Check(len(bad) == 0, f, f.Decl, "what the new item of a variable is built from", what, ifElse(len(bad) == 0, "no field of the new item is assigned from the item currently stored", strings.Join(bad, "; ")))
	}
	if n == 0 {
		c.Missing("SetVariable", "no SetVariable method was found in pkg/data")
	}
}

// ---- R134 .. R140 ----

func init() {
	register(&Rule{ID: "R134", Title: "an event egress forwards every event: no path of a forwarding ConsumeEvent returns before ForwardEvent except under the atomic 'active' gate of an activity", Min: 3, Run: ruleR134})
	register(&Rule{ID: "R135", Title: "text is written escaped: no struct that a MarshalXML method encodes carries an `innerxml` field", Min: 15, Run: ruleR135})
	register(&Rule{ID: "R136", Title: "a firing needs a taker: the channel a timer delivers its firings on is unbuffered, so that the cancellation guard beside every send stays effective", Min: 3, Run: ruleR136})
	register(&Rule{ID: "R137", Title: "nodes live under the token's own context: the context a token hands to NextAction is its context parameter itself, not a derived context the token can cancel on its own", Min: 1, Run: ruleR137})
	register(&Rule{ID: "R138", Title: "marshal writes what is there: a MarshalXML method does not replace a collection of the value it encodes by a filtered one", Min: 15, Run: ruleR138})
	register(&Rule{ID: "R139", Title: "delivery is a post: every ConsumeEvent of an event node hands the event to the node's mailbox on every path (what to do with it is decided in the node's goroutine)", Min: 3, Run: ruleR139})
	register(&Rule{ID: "R140", Title: "no update through a copy: a struct-valued range variable is not mutated (field assignment or pointer-receiver setter) without being stored back", Min: 0, Run: ruleR140})
}

func ruleR134(c *Ctx) {
	p := c.P
	what := "whoever is registered at an instance gets every event handed to it; an instance that drops a delivery it considers a duplicate (the same event value as last time) starves a listener that was armed between the two deliveries — two catch events for the same signal in sequence, a catch event in a loop"
	n := 0
	for _, f := range p.Funcs {
		if f.Obj == nil || f.Body == nil || f.Obj.Name() != "ConsumeEvent" || !isTargetPkg(p, f.Pkg.PkgPath) {
			continue
		}
		in := info(f)
		g := p.Graph(f)
		isFwd := func(nd ast.Node) bool {
			return nd != nil && mentionsDeep(nd, func(m ast.Node) bool {
				cl, ok := m.(*ast.CallExpr)
				return ok && callee(in, cl) != nil && callee(in, cl).Name() == "ForwardEvent"
			})
		}
		has := false
		for _, pt := range g.AllPoints() {
			if isFwd(pt.Node()) {
				has = true
			}
		}
		if !has {
			continue
		}
		n++
		bad := g.MustPassBeforeExit(g.Entry(), true, isFwd)
		// the activity harness forwards only while it is active: a bypass controlled by an atomic load is its gate
		gated := false
		if len(bad) > 0 {
			for _, pt := range g.AllPoints() {
				if isFwd(pt.Node()) {
					for _, cnd := range controlConds(p, f, pt.Node()) {
						if mentionsDeep(cnd, func(m ast.Node) bool {
							cl, ok := m.(*ast.CallExpr)
							if !ok {
								return false
							}
							fn := callee(in, cl)
							return fn != nil && fn.Pkg() != nil && fn.Pkg().Path() == "sync/atomic" && strings.HasPrefix(fn.Name(), "Load")
						}) {
							gated = true
						}
					}
				}
			}
		}
		ok := len(bad) == 0 || gated
		c.Check(ok, f, f.Decl, "forwarding in "+f.QName(), what, ifElse(len(bad) == 0, "every path passes ForwardEvent", ifElse(gated, "bypassed only under the atomic activity gate", "a path returns without forwarding: "+witnessLines(g, bad))))
	}
	if n == 0 {
		c.Missing("forwarding consumers", "no ConsumeEvent that calls ForwardEvent was found")
	}
}

func ruleR135(c *Ctx) {
	p := c.P
	what := "`,innerxml` writes a string verbatim into the document: a JSON body that contains < or & then produces XML that does not parse (or parses to a different text), where character data would have been escaped and read back unchanged"
	n := 0
	for _, f := range p.Funcs {
		if f.Obj == nil || f.Body == nil || f.Obj.Name() != "MarshalXML" || !strings.HasSuffix(f.Pkg.PkgPath, "/schema") {
			continue
		}
		n++
		in := info(f)
		bad := ""
		check := func(t types.Type) {
			if st, ok := t.Underlying().(*types.Struct); ok {
				for i := 0; i < st.NumFields(); i++ {
					if strings.Contains(st.Tag(i), "innerxml") {
						bad = st.Field(i).Name() + " `" + st.Tag(i) + "`"
					}
				}
			}
		}
		ast.Inspect(f.Body, func(m ast.Node) bool {
			if cl, ok := m.(*ast.CallExpr); ok {
				if fn := callee(in, cl); fn != nil && strings.HasPrefix(fn.Name(), "Encode") && fn.Pkg() != nil && fn.Pkg().Path() == "encoding/xml" && len(cl.Args) > 0 {
					t := in.TypeOf(cl.Args[0])
					if pt, ok := t.Underlying().(*types.Pointer); ok {
						t = pt.Elem()
					}
					check(t)
				}
			}
			return true
		})
		c.Check(bad == "", f, f.Decl, "what "+f.QName()+" encodes", what, ifElse(bad == "", "no innerxml field in the encoded value", "encodes a struct with field "+bad))
	}
	if n == 0 {
		c.Missing("MarshalXML methods", "none found")
	}
}

func ruleR136(c *Ctx) {
	p := c.P
	what := "every send of a firing is `select { case ch <- d: case <-ctx.Done(): }`: on an unbuffered channel the firing is delivered only to a consumer that is there, and a cancellation wins over a firing nobody takes. With a buffer the send always succeeds at once: a firing produced before the cancellation sits in the channel and reaches the consumer afterwards"
	ce := chanEngine(p)
	n := 0
	for _, ms := range ce.Makes {
		if shortPkg(ms.Func.Pkg.PkgPath) != "pkg/timer" {
			continue
		}
		in := info(ms.Func)
		ct, ok := in.TypeOf(ms.Call).Underlying().(*types.Chan)
		if !ok || !isNamed(ct.Elem(), pathSchema, "TimerEventDefinition") {
			continue
		}
		n++
		c.Check(ms.Cap == "0", ms.Func, ms.Call, "capacity of a timer's firing channel", what, "capacity class: "+ms.Cap)
	}
	if n == 0 {
		c.Missing("timer channel", "no make of a chan TimerEventDefinition was found in pkg/timer")
	}
}

func ruleR137(c *Ctx) {
	p := c.P
	what := "a node starts its goroutine lazily, under the context of the first token that asks it (once.Do(go run(ctx))). If that context belongs to the token alone and the token cancels it when it is withdrawn, the node's goroutine dies with it: the withdrawn alternative of an event-based gateway can never be armed again and its mailbox fills up until event delivery blocks"
	n := 0
	for _, root := range tokenRoots(p) {
		in := info(root)
		inspectNoLit(root.Body, func(m ast.Node) bool {
			cl, ok := m.(*ast.CallExpr)
			if !ok || len(cl.Args) < 1 {
				return true
			}
			fn := callee(in, cl)
			if fn == nil || fn.Name() != "NextAction" {
				return true
			}
			n++
			okArg := false
			if id, isId := unparen(cl.Args[0]).(*ast.Ident); isId {
				if v, isVar := objOf(in, id).(*types.Var); isVar {
					for fi := root; fi != nil; fi = fi.Parent {
						if isParam(fi, v) {
							okArg = true
						}
					}
				}
			}
			c.Check(okArg, root, cl, "context handed to NextAction", what, ifElse(okArg, "the context parameter itself: "+exprString(cl.Args[0]), exprString(cl.Args[0])+" is not the context parameter of the token (a derived context)"))
			return true
		})
	}
	if n == 0 {
		c.Missing("NextAction call", "no NextAction call was found in the token goroutine")
	}
}

func ruleR138(c *Ctx) {
	p := c.P
	what := "the engine resolves a repeated header / property name to the last entry; a writer that keeps only the first occurrence of each name produces a document whose re-parsed model holds different extension data and routes differently"
	n := 0
	for _, f := range p.Funcs {
		if f.Obj == nil || f.Body == nil || f.Obj.Name() != "MarshalXML" || !strings.HasSuffix(f.Pkg.PkgPath, "/schema") {
			continue
		}
		n++
		in := info(f)
		bad := ""
		inspectNoLit(f.Body, func(m ast.Node) bool {
			as, ok := m.(*ast.AssignStmt)
			if !ok || len(as.Lhs) != len(as.Rhs) {
				return true
			}
			for i, l := range as.Lhs {
				fv := fieldOf(in, l)
				if fv == nil {
					continue
				}
				if _, isSlice := fv.Type().Underlying().(*types.Slice); !isSlice {
					continue
				}
				// reassigned from a call (a filter / transform) or a slice expression of itself
				switch r := unparen(as.Rhs[i]).(type) {
				case *ast.CallExpr:
					if !isBuiltin(in, r, "append") || len(r.Args) < 2 {
						bad = exprString(l) + " = " + exprString(r)
					}
				case *ast.SliceExpr:
					bad = exprString(l) + " = " + exprString(r)
				}
			}
			return true
		})
		c.Check(bad == "", f, f.Decl, "collections of the value "+f.QName()+" encodes", what, ifElse(bad == "", "no slice field of the encoded value is replaced", "replaced: "+bad))
	}
	if n == 0 {
		c.Missing("MarshalXML methods", "none found")
	}
}

func ruleR139(c *Ctx) {
	p := c.P
	what := "whether a node is listening is decided in the node's goroutine, in mailbox order relative to the token's request; a ConsumeEvent that looks at the flag itself and keeps or drops the event on the caller's side (to replay it to the next token) turns an event that found nobody listening into one that decides a later round of an event-based gateway"
	n := 0
	for _, f := range p.Funcs {
		if f.Obj == nil || f.Body == nil || f.Obj.Name() != "ConsumeEvent" || f.Pkg.PkgPath != pathBpmn {
			continue
		}
		r := recvNamed(f.Obj)
		if r == nil {
			continue
		}
		st, ok := r.Underlying().(*types.Struct)
		if !ok {
			continue
		}
		hasBox, hasRun := false, false
		for i := 0; i < st.NumFields(); i++ {
			if isMailboxChan(st.Field(i).Type()) {
				hasBox = true
			}
		}
		for _, g := range p.Funcs {
			if g.Obj != nil && g.Obj.Name() == "run" && recvNamed(g.Obj) == r {
				hasRun = true
			}
		}
		// only nodes that deliver by posting (the harness forwards instead)
		in := info(f)
		posts := false
		ast.Inspect(f.Body, func(m ast.Node) bool {
			if s, ok := m.(*ast.SendStmt); ok && isMailboxChan(in.TypeOf(s.Chan)) {
				posts = true
			}
			return true
		})
		if !hasBox || !hasRun || !posts {
			continue
		}
		n++
		g := p.Graph(f)
		bad := g.MustPassBeforeExit(g.Entry(), true, func(nd ast.Node) bool {
			return nd != nil && mentionsDeep(nd, func(m ast.Node) bool {
				s, ok := m.(*ast.SendStmt)
				return ok && isMailboxChan(in.TypeOf(s.Chan))
			})
		})
		// the one accepted bypass: the node's goroutine does not exist yet (a flag that is set only where the
		// goroutine is launched) — there is no mailbox order to respect, the event would be discarded anyway
		if len(bad) > 0 {
			ex := existenceFlags(p)
			allEx := true
			for _, path := range bad {
				last := path[len(path)-1].Node()
				ret, isRet := last.(*ast.ReturnStmt)
				if !isRet {
					allEx = false
					continue
				}
				under := enclosingIfWhere(p, ret, f.Body, func(cond ast.Expr, inThen bool) bool {
					cnd := unparen(cond)
					neg := false
					if u, ok := cnd.(*ast.UnaryExpr); ok && u.Op == token.NOT {
						neg, cnd = true, unparen(u.X)
					}
					cl, ok := cnd.(*ast.CallExpr)
					if !ok {
						return false
					}
					fv, meth, _ := atomicFieldCall(in, cl)
					return fv != nil && ex[fv] && meth == "Load" && neg == inThen
				}) != nil
				if !under {
					allEx = false
				}
			}
			if allEx {
				c.Ok(f, f.Decl, "delivery in "+f.QName(), what, "posts on every path except while the node's goroutine does not exist yet (flag set only where it is launched)", true)
				continue
			}
		}
		c.Check(len(bad) == 0, f, f.Decl, "delivery in "+f.QName(), what, ifElse(len(bad) == 0, "every path posts the event into the mailbox", "a path returns without posting: "+witnessLines(g, bad)))
	}
	if n == 0 {
		c.Missing("posting consumers", "no ConsumeEvent of a node with a mailbox was found")
	}
}

func ruleR140(c *Ctx) {
	p := c.P
	what := "`for _, v := range s` copies each element: assigning to a field of v, or calling a setter with a pointer receiver on it, changes the copy and is lost at the end of the iteration (way points that were meant to be shifted with their shapes stay where they were)"
	// setters: pointer-receiver methods that assign receiver fields
	setter := map[*types.Func]bool{}
	for _, f := range p.Funcs {
		if f.Obj == nil || f.Body == nil || f.Decl == nil || f.Decl.Recv == nil || len(f.Decl.Recv.List[0].Names) == 0 {
			continue
		}
		sig := f.Obj.Type().(*types.Signature)
		if _, ptr := sig.Recv().Type().(*types.Pointer); !ptr {
			continue
		}
		in := info(f)
		rv := in.Defs[f.Decl.Recv.List[0].Names[0]]
		w := false
		inspectNoLit(f.Body, func(m ast.Node) bool {
			if as, ok := m.(*ast.AssignStmt); ok {
				for _, l := range as.Lhs {
					if sel, ok := unparen(l).(*ast.SelectorExpr); ok && fieldOf(in, sel) != nil {
						if id := rootIdent(sel.X); id != nil && objOf(in, id) == rv {
							w = true
						}
					}
				}
			}
			return true
		})
		if w {
			setter[f.Obj] = true
		}
	}
	for _, f := range p.Funcs {
		if f.Body == nil || !(isTargetPkg(p, f.Pkg.PkgPath) || strings.HasSuffix(f.Pkg.PkgPath, "/schema")) {
			continue
		}
		if strings.Contains(p.Pos(f.Body.Pos()), "_generated") {
			continue
		}
		in := info(f)
		inspectNoLit(f.Body, func(m ast.Node) bool {
			rs, ok := m.(*ast.RangeStmt)
			if !ok || rs.Value == nil || rs.Tok != token.DEFINE {
				return true
			}
			vid, ok := rs.Value.(*ast.Ident)
			if !ok || vid.Name == "_" {
				return true
			}
			vo := objOf(in, vid)
			if vo == nil {
				return true
			}
			if _, isStruct := vo.Type().Underlying().(*types.Struct); !isStruct {
				return true
			}
			mutated, storedBack := "", false
			inspectNoLit(rs.Body, func(z ast.Node) bool {
				switch x := z.(type) {
				case *ast.AssignStmt:
					for i, l := range x.Lhs {
						if sel, ok := unparen(l).(*ast.SelectorExpr); ok && fieldOf(in, sel) != nil {
							if id := rootIdent(sel.X); id != nil && objOf(in, id) == vo {
								mutated = exprString(l) + " = ..."
							}
						}
						if i < len(x.Rhs) {
							if rid, ok := unparen(x.Rhs[i]).(*ast.Ident); ok && objOf(in, rid) == vo {
								storedBack = true
							}
						}
					}
				case *ast.CallExpr:
					if fn := callee(in, x); fn != nil && setter[fn] {
						if sel, ok := unparen(x.Fun).(*ast.SelectorExpr); ok {
							if id, ok := unparen(sel.X).(*ast.Ident); ok && objOf(in, id) == vo {
								mutated = exprString(x.Fun) + "(...)"
							}
						}
					}
					for _, a := range x.Args {
						if rid, ok := unparen(a).(*ast.Ident); ok && objOf(in, rid) == vo {
							storedBack = true // handed on by value: the changed copy is used
						}
						if u, ok := unparen(a).(*ast.UnaryExpr); ok && u.Op == token.AND {
							if rid, ok := unparen(u.X).(*ast.Ident); ok && objOf(in, rid) == vo {
								storedBack = true
							}
						}
					}
				}
				return true
			})
			if mutated != "" && !storedBack {
				c.Bad(f, rs, "mutation of range copy "+vid.Name, what, mutated+" on the copy "+vid.Name+" of an element of "+exprString(rs.X))
			}
			return true
		})
	}
	c.Ok(nil, nil, "scan of struct-valued range variables", what, "every range statement of the hand-written target code was inspected", false)
}

// ---- R141 ----

func init() {
	register(&Rule{ID: "R141", Title: "a throw on its way is work of the set: the watcher counts every throw message on the set's wait group before it posts it, and the pump releases that count on every path of handling it", Min: 2, Run: ruleR141})
}

func ruleR141(c *Ctx) {
	p := c.P
	what := "a thrower that ends right after its throw takes its watcher off the wait group while the throw message is still in the pump's mailbox: WaitUntilComplete returns true (and the pump may see `done` first and stop) before the process the message flow instantiates exists. Counting the message itself closes the gap"
	isThrowMsg := func(t types.Type) bool {
		n := namedOf(t)
		return n != nil && n.Obj().Name() == "throwMessage" && n.Obj().Pkg() != nil && n.Obj().Pkg().Path() == pathBpmn
	}
	n := 0
	for _, f := range p.Funcs {
		if f.Body == nil || f.Pkg.PkgPath != pathBpmn {
			continue
		}
		in := info(f)
		g := p.Graph(f)
		// (a) posts
		for _, pt := range g.AllPoints() {
			s, ok := pt.Node().(*ast.SendStmt)
			if !ok || !isMailboxChan(in.TypeOf(s.Chan)) || !isThrowMsg(in.TypeOf(s.Value)) {
				continue
			}
			n++
			counted := false
			for _, q := range g.AllPoints() {
				if q == pt || !g.Dominates(q, pt) {
					continue
				}
				for _, cl := range callsIn(q.Node()) {
					if isSyncMethod(in, cl, "WaitGroup", "Add") {
						// in the same clause / block as the post: the count belongs to this message
						if innermostCommOrCase(p, q.Node()) == innermostCommOrCase(p, s) {
							counted = true
						}
					}
				}
			}
			c.Check(counted, f, s, "post of a throw message", what, ifElse(counted, "preceded by WaitGroup.Add in the same clause", "no WaitGroup.Add precedes the post in its clause"))
		}
		// (b) handling
		for _, arms := range typeDispatches(p, f, isIMessage) {
			for _, a := range arms {
				if len(a.Types) != 1 || !isThrowMsg(a.Types[0]) || len(a.Body) == 0 {
					continue
				}
				n++
				released, wit := false, "the clause does not release the count on every path"
				// a helper that is handed the message and defers Done, or Done on all paths of the clause
				for _, st := range a.Body {
					for _, cl := range callsIn(st) {
						if cf := p.byObj[callee(in, cl)]; cf != nil && cf.Pkg == f.Pkg && cf.Body != nil {
							cin := info(cf)
							cg := p.Graph(cf)
							for _, d := range cg.Defers {
								if isSyncMethod(cin, d.Node().(*ast.DeferStmt).Call, "WaitGroup", "Done") {
									if dpt, ok := cg.PointOf(d.Node()); ok && cg.Dominates(dpt, dpt) {
										// the defer must be reached on every path: it is a top-level statement before any return
										early := cg.MustPassBeforeExit(cg.Entry(), true, func(z ast.Node) bool { return z == d.Node() })
										if len(early) == 0 {
											released, wit = true, "handled by "+cf.QName()+", which defers WaitGroup.Done before any return"
										}
									}
								}
							}
						}
					}
				}
				if !released {
					if entry, ok := g.EntryOfStmts(a.Body); ok {
						bad := g.RegionPaths(entry, regionOfStmts(a.Body), func(z ast.Node) bool {
							for _, cl := range callsIn(z) {
								if isSyncMethod(in, cl, "WaitGroup", "Done") {
									return true
								}
							}
							return false
						})
						if len(bad) == 0 {
							released, wit = true, "WaitGroup.Done on every path of the clause"
						}
					}
				}
				c.Check(released, f, a.Node, "handling of a throw message", what, wit)
			}
		}
	}
	if n < 2 {
		c.Missing("throw message protocol", "the post and the handling of throwMessage were not both found")
	}
}

func innermostCommOrCase(p *Prog, n ast.Node) ast.Node {
	for cur := p.Parent(n); cur != nil; cur = p.Parent(cur) {
		switch cur.(type) {
		case *ast.CaseClause, *ast.CommClause, *ast.FuncDecl, *ast.FuncLit:
			return cur
		}
	}
	return nil
}

// ---- R142, R143 ----

func init() {
	register(&Rule{ID: "R142", Title: "every way of starting an instance launches its monitor: in the function that triggers a start event, the (once-only) launch of the completion monitor precedes the trigger", Min: 1, Run: ruleR142})
	register(&Rule{ID: "R143", Title: "builder ids are drawn, not counted: an identifier the builders generate contains random material (or is the caller's), never a position or a counter that repeats in the next process", Min: 8, Run: ruleR143})
}

func ruleR142(c *Ctx) {
	p := c.P
	what := "a process set instantiates a waiting process with StartWith alone; if only StartAll launches the completion monitor, such an instance runs to its end event without ever emitting CeaseFlowTrace: its watcher never finishes and the set never completes"
	n := 0
	for _, f := range p.Funcs {
		if f.Body == nil || f.Pkg.PkgPath != pathBpmn {
			continue
		}
		r := f.Root()
		if r.Obj == nil || recvNamed(r.Obj) == nil || recvNamed(r.Obj).Obj().Name() != "Process" {
			continue
		}
		in := info(f)
		g := p.Graph(f)
		for _, pt := range g.AllPoints() {
			var trig *ast.CallExpr
			for _, cl := range callsIn(pt.Node()) {
				if fn := callee(in, cl); fn != nil && fn.Name() == "Trigger" && recvNamed(fn) != nil && recvNamed(fn).Obj().Name() == "startEvent" {
					trig = cl
				}
			}
			if trig == nil {
				continue
			}
			n++
			launched := false
			for _, q := range g.AllPoints() {
				if q == pt || !g.Dominates(q, pt) {
					continue
				}
				for _, cl := range callsIn(q.Node()) {
					if isSyncMethod(in, cl, "Once", "Do") && len(cl.Args) == 1 {
						if mentionsDeep(cl.Args[0], func(m ast.Node) bool {
							gs, ok := m.(*ast.GoStmt)
							if !ok {
								return false
							}
							return mentionsDeep(gs.Call, func(z ast.Node) bool {
								c2, ok := z.(*ast.CallExpr)
								return ok && callee(in, c2) != nil && strings.Contains(strings.ToLower(callee(in, c2).Name()), "monitor")
							})
						}) {
							launched = true
						}
					}
				}
			}
			c.Check(launched, f, trig, "trigger of a start event in "+f.QName(), what, ifElse(launched, "dominated by the once-only launch of the completion monitor", "no launch of the completion monitor dominates the trigger in this function"))
		}
	}
	if n == 0 {
		c.Missing("start trigger", "no call of (*startEvent).Trigger was found in a method of Process")
	}
}

func ruleR143(c *Ctx) {
	p := c.P
	what := "ids have to be unique in the whole definitions document: a flow id built from the flow's position in its process (Flow_1, Flow_2, ...) repeats in every further process added to the same DefinitionBuilder, and AutoLayout then emits several edges for one bpmnElement"
	n := 0
	for _, f := range p.Funcs {
		if f.Body == nil || !strings.HasSuffix(f.Pkg.PkgPath, "/schema") || !strings.HasSuffix(p.Fset.Position(f.Body.Pos()).Filename, "builder.go") {
			continue
		}
		in := info(f)
		drawn := func(e ast.Expr) (bool, string) {
			// contains RandBytes(...) directly or through locals
			var check func(e ast.Node, d int) bool
			check = func(e ast.Node, d int) bool {
				return mentionsDeep(e, func(m ast.Node) bool {
					if cl, ok := m.(*ast.CallExpr); ok {
						if fn := callee(in, cl); fn != nil && fn.Name() == "RandBytes" {
							return true
						}
					}
					if id, ok := m.(*ast.Ident); ok && d < 3 {
						if o := objOf(in, id); o != nil && isLocalVar(f.Root(), o) {
							defs, _ := localDefs(in, f.Root().Body, o)
							for _, df := range defs {
								if check(df, d+1) {
									return true
								}
							}
						}
					}
					return false
				})
			}
			if check(e, 0) {
				return true, "contains RandBytes"
			}
			// the caller's own id: a parameter or a field of a parameter
			fromCaller := false
			ast.Inspect(e, func(m ast.Node) bool {
				if id, ok := m.(*ast.Ident); ok {
					if v, ok := objOf(in, id).(*types.Var); ok && isParam(f.Root(), v) {
						fromCaller = true
					}
				}
				return true
			})
			if fromCaller {
				return true, "the caller's id"
			}
			return false, exprString(e) + " is neither drawn from RandBytes nor supplied by the caller"
		}
		inspectNoLit(f.Body, func(m ast.Node) bool {
			switch x := m.(type) {
			case *ast.AssignStmt:
				for i, l := range x.Lhs {
					fv := fieldOf(in, l)
					if fv == nil || fv.Name() != "IdField" || i >= len(x.Rhs) {
						continue
					}
					n++
					ok, wit := drawn(x.Rhs[i])
					c.Check(ok, f, x, "generated id ("+exprString(l)+")", what, wit)
				}
			case *ast.CallExpr:
				fn := callee(in, x)
				if fn == nil || fn.Name() != "SetId" || len(x.Args) != 1 {
					return true
				}
				n++
				ok, wit := drawn(x.Args[0])
				c.Check(ok, f, x, "generated id (SetId)", what, wit)
			}
			return true
		})
	}
	if n == 0 {
		c.Missing("builder ids", "no id assignment was found in schema/builder.go")
	}
}

// existenceFlags: atomic.Bool fields of node types whose every store is `Store(true)` inside the sync.Once.Do literal
// that launches the node's run goroutine, after the go statement: the flag says "the mailbox has an owner".
func existenceFlags(p *Prog) map[*types.Var]bool {
	stores := map[*types.Var]int{}
	good := map[*types.Var]int{}
	for _, f := range p.Funcs {
		if f.Body == nil || f.Pkg.PkgPath != pathBpmn {
			continue
		}
		in := info(f)
		inspectNoLit(f.Body, func(m ast.Node) bool {
			cl, ok := m.(*ast.CallExpr)
			if !ok {
				return true
			}
			fv, meth, args := atomicFieldCall(in, cl)
			if fv == nil || !isNamed(fv.Type(), "sync/atomic", "Bool") || (meth != "Store" && meth != "Swap" && meth != "CompareAndSwap") {
				return true
			}
			stores[fv]++
			if meth == "CompareAndSwap" && len(args) == 2 && isIdentNamed(args[0], "false") && isIdentNamed(args[1], "true") {
				// `if flag.CompareAndSwap(false, true) { ...; go x.run(...) }`: the flag says that the loop was launched
				if is, ok := p.Parent(cl).(*ast.IfStmt); ok && is.Cond == ast.Expr(cl) {
					launches := false
					inspectNoLit(is.Body, func(z ast.Node) bool {
						if gs, ok := z.(*ast.GoStmt); ok {
							if fn := callee(in, gs.Call); fn != nil && fn.Name() == "run" {
								launches = true
							}
						}
						return true
					})
					if launches {
						good[fv]++
					}
				}
				return true
			}
			if meth != "Store" || len(args) != 1 {
				return true
			}
			if id, ok := unparen(args[0]).(*ast.Ident); !ok || id.Name != "true" {
				return true
			}
			// inside a literal handed to Once.Do that launches a goroutine before this statement
			if f.Lit == nil {
				return true
			}
			pc, ok := p.Parent(f.Lit).(*ast.CallExpr)
			if !ok {
				return true
			}
			pf := p.EnclosingFunc(pc)
			if pf == nil || !isSyncMethod(info(pf), pc, "Once", "Do") {
				return true
			}
			launched := false
			for _, st := range f.Body.List {
				if st.Pos() >= cl.Pos() {
					break
				}
				if gs, ok := st.(*ast.GoStmt); ok {
					if fn := callee(in, gs.Call); fn != nil && fn.Name() == "run" {
						launched = true
					}
				}
			}
			if launched {
				good[fv]++
			}
			return true
		})
	}
	out := map[*types.Var]bool{}
	for fv, n := range stores {
		if n > 0 && good[fv] == n {
			out[fv] = true
		}
	}
	return out
}

func isIdentNamed(e ast.Expr, name string) bool {
	id, ok := unparen(e).(*ast.Ident)
	return ok && id.Name == name
}
