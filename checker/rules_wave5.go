package main

// Rules added after the fifth (held-out) wave of seeded faults (letters g, h in /verif/seeded).
//
//	R111 a node's goroutine leaves its loop only through a done-source (or after re-arming its start guard)
//	R112 a satisfied catch event releases every parked token
//	R113 a satisfier is created once per node
//	R114 read-copy-update of a lock-guarded field happens in one critical section
//	R115 start events are counted from the traces of their flows only
//	R116 a subscription is unsubscribed at most once on any path
//	R117 the completion lock is observed per call, not once per instance
//	R118 a distributor answers the parked tokens on every path

import (
	"fmt"
	"go/ast"
	"go/token"
	"go/types"
	"sort"
	"strings"
)

func init() {
	register(&Rule{ID: "R111", Title: "nodes stay: the goroutine that drains a node's mailbox leaves its loop only through a done-source clause, or after re-arming the guard that lets the next token start it again", Min: 10, Run: ruleR111})
	register(&Rule{ID: "R112", Title: "broadcast release: when a catch event is satisfied, every parked token is released — the released set is the whole list of waiters, not a selection of it", Min: 1, Run: ruleR112})
	register(&Rule{ID: "R113", Title: "one satisfier per node: the object that accumulates the match history of an event node is created with the node, never replaced later", Min: 3, Run: ruleR113})
	register(&Rule{ID: "R114", Title: "read-copy-update in one critical section: a lock-guarded field is not overwritten with a value that was computed from a read of the same field under an earlier, already released acquisition of the lock", Min: 4, Run: ruleR114})
	register(&Rule{ID: "R115", Title: "start events are counted per flow: the completion monitor records a start event only from the FlowTrace / TerminationTrace of its token", Min: 2, Run: ruleR115})
	register(&Rule{ID: "R116", Title: "unsubscribe once: on no path is the same subscription unsubscribed twice (the second request is never acknowledged)", Min: 4, Run: ruleR116})
	register(&Rule{ID: "R117", Title: "completion is observed per call: WaitUntilComplete of a process queues on the completion lock in a goroutine of the call, not in a watcher started once per instance", Min: 1, Run: ruleR117})
	register(&Rule{ID: "R118", Title: "a distributor answers on every path: no return of a function that hands actions to parked tokens bypasses the loop over them", Min: 1, Run: ruleR118})
}

// runLoopOf: the `for { select { ... } }` of a run method (the outermost unbounded loop of its body).
func runLoopOf(f *FuncInfo) *ast.ForStmt {
	var loop *ast.ForStmt
	for _, st := range f.Body.List {
		if fs, ok := st.(*ast.ForStmt); ok && fs.Cond == nil {
			loop = fs
		}
		if ls, ok := st.(*ast.LabeledStmt); ok {
			if fs, ok := ls.Stmt.(*ast.ForStmt); ok && fs.Cond == nil {
				loop = fs
			}
		}
	}
	return loop
}

func ruleR111(c *Ctx) {
	p := c.P
	what := "a node is started once (sync.Once or a compare-and-swap guard) and stays registered as a mailbox owner and event consumer for the whole instance: a run loop that returns after 'its work is done' leaves a mailbox nobody drains — the next token to reach the node (a loop, a second round through a join) is parked for ever, and event delivery blocks once the dead node's mailbox is full"
	ce := chanEngine(p)
	n := 0
	for _, f := range p.Funcs {
		if f.Obj == nil || f.Body == nil || f.Obj.Name() != "run" || f.Pkg.PkgPath != pathBpmn {
			continue
		}
		r := recvNamed(f.Obj)
		if r == nil {
			continue
		}
		st, ok := r.Underlying().(*types.Struct)
		if !ok {
			continue
		}
		hasBox := false
		for i := 0; i < st.NumFields(); i++ {
			if isMailboxChan(st.Field(i).Type()) {
				hasBox = true
			}
		}
		if !hasBox {
			continue
		}
		// the start guard: an atomic field that some method of the type swaps from 0 (CompareAndSwap(0,k))
		guard := map[*types.Var]bool{}
		for _, g := range p.Funcs {
			if g.Obj == nil || g.Body == nil || recvNamed(g.Obj) != r {
				continue
			}
			gin := info(g)
			ast.Inspect(g.Body, func(m ast.Node) bool {
				if cl, ok := m.(*ast.CallExpr); ok {
					if fv, meth, args := atomicFieldCall(gin, cl); fv != nil && meth == "CompareAndSwap" && len(args) == 2 {
						if o, ok := constInt(gin, args[0]); ok && o == 0 {
							guard[fv] = true
						}
					}
				}
				return true
			})
		}
		loop := runLoopOf(f)
		if loop == nil {
			continue
		}
		n++
		in := info(f)
		var bad []string
		for t := range goroutineTree(p, f) {
			if t != f {
				continue // helpers return to the loop, not out of it
			}
		}
		inspectNoLit(loop.Body, func(m ast.Node) bool {
			ret, ok := m.(*ast.ReturnStmt)
			if !ok {
				return true
			}
			// inside a done-source clause?
			for cur := p.Parent(ret); cur != nil && cur != ast.Node(loop); cur = p.Parent(cur) {
				if cc, ok := cur.(*ast.CommClause); ok && cc.Comm != nil && isDoneComm(p, f, cc.Comm) {
					return true
				}
			}
			// a cancellation reported by an extracted wait
			if isCancellationReturn(p, f, ret) {
				return true
			}
			// re-armed: the enclosing clause resets the start guard to 0 before it returns
			rearmed := false
			for cur := p.Parent(ret); cur != nil && cur != ast.Node(loop); cur = p.Parent(cur) {
				var list []ast.Stmt
				switch x := cur.(type) {
				case *ast.CaseClause:
					list = x.Body
				case *ast.CommClause:
					list = x.Body
				case *ast.BlockStmt:
					list = x.List
				}
				for _, s := range list {
					if s.Pos() > ret.Pos() {
						break
					}
					ast.Inspect(s, func(z ast.Node) bool {
						if cl, ok := z.(*ast.CallExpr); ok {
							if fv, meth, args := atomicFieldCall(in, cl); fv != nil && guard[fv] && (meth == "Swap" || meth == "Store") && len(args) == 1 {
								if v, ok := constInt(in, args[0]); ok && v == 0 {
									rearmed = true
								}
							}
						}
						return true
					})
				}
			}
			if rearmed {
				return true
			}
			bad = append(bad, "return at "+p.Pos(ret.Pos())+" leaves the loop outside a done-source clause and without re-arming the start guard")
			return true
		})
		// a labelled break / goto out of the loop counts as leaving too
		inspectNoLit(loop.Body, func(m ast.Node) bool {
			br, ok := m.(*ast.BranchStmt)
			if !ok || br.Label == nil || (br.Tok != token.BREAK && br.Tok != token.GOTO) {
				return true
			}
			if ls, ok := p.Parent(loop).(*ast.LabeledStmt); ok && br.Tok == token.BREAK && ls.Label.Name == br.Label.Name {
				inDone := false
				for cur := p.Parent(br); cur != nil && cur != ast.Node(loop); cur = p.Parent(cur) {
					if cc, ok := cur.(*ast.CommClause); ok && cc.Comm != nil && isDoneComm(p, f, cc.Comm) {
						inDone = true
					}
				}
				if !inDone {
					bad = append(bad, "break "+br.Label.Name+" at "+p.Pos(br.Pos())+" leaves the loop outside a done-source clause")
				}
			}
			return true
		})
		_ = ce
		sort.Strings(bad)
		c.Check(len(bad) == 0, f, loop, "exits of the mailbox loop of "+r.Obj().Name(), what, ifElse(len(bad) == 0, "the loop is left only through done-source clauses"+ifElse(len(guard) > 0, " or after the start guard is reset", ""), strings.Join(bad, "; ")))
	}
	if n == 0 {
		c.Missing("node run loops", "no run method with a mailbox loop was found")
	}
}

// wholeOf: e denotes the whole value of struct field fv: the field itself, a local defined from it, or the result of a
// same-package method that returns the field's whole value (no slicing, no filtering).
func wholeOf(p *Prog, f *FuncInfo, e ast.Expr, depth int) (*types.Var, bool) {
	in := info(f)
	e = unparen(e)
	if fv := fieldOf(in, e); fv != nil {
		return fv, true
	}
	if id, ok := e.(*ast.Ident); ok {
		if o := objOf(in, id); o != nil && isLocalVar(f.Root(), o) {
			defs, _ := localDefs(in, f.Root().Body, o)
			var fv *types.Var
			for _, d := range defs {
				v, ok := wholeOf(p, f, d, depth+1)
				if !ok || (fv != nil && v != fv) {
					return nil, false
				}
				fv = v
			}
			return fv, fv != nil
		}
	}
	if cl, ok := e.(*ast.CallExpr); ok && depth < 2 {
		cf := p.byObj[callee(in, cl)]
		if cf == nil || cf.Pkg != f.Pkg || cf.Body == nil {
			return nil, false
		}
		cin := info(cf)
		// no slice expression on the result path, and every returned value is the whole field
		sliced := false
		ast.Inspect(cf.Body, func(m ast.Node) bool {
			if _, ok := m.(*ast.SliceExpr); ok {
				sliced = true
			}
			return true
		})
		if sliced {
			return nil, false
		}
		var fv *types.Var
		okAll, n := true, 0
		ast.Inspect(cf.Body, func(m ast.Node) bool {
			switch x := m.(type) {
			case *ast.ReturnStmt:
				for _, r := range x.Results {
					n++
					v, ok := wholeOf(p, cf, r, depth+1)
					if !ok || (fv != nil && v != fv) {
						okAll = false
					}
					fv = v
				}
			case *ast.AssignStmt:
				// named result assigned from the field
				for i, l := range x.Lhs {
					if id, ok := unparen(l).(*ast.Ident); ok && i < len(x.Rhs) && len(x.Lhs) == len(x.Rhs) {
						if o, ok := objOf(cin, id).(*types.Var); ok && cf.Obj != nil {
							sig := cf.Obj.Type().(*types.Signature)
							for k := 0; k < sig.Results().Len(); k++ {
								if sig.Results().At(k) == o {
									n++
									v, ok := wholeOf(p, cf, x.Rhs[i], depth+1)
									if !ok || (fv != nil && v != fv) {
										okAll = false
									}
									fv = v
								}
							}
						}
					}
				}
			}
			return true
		})
		return fv, okAll && n > 0 && fv != nil
	}
	return nil, false
}

func ruleR112(c *Ctx) {
	p := c.P
	what := "every token that waits at a catch event continues when the event is satisfied, and the withdrawn alternatives of an event-based gateway stay registered as waiters until then; releasing only a selection (the longest-waiting one, for a 'point-to-point' message) hands the event to a dead registration and leaves the live token waiting"
	n := 0
	for _, f := range p.Funcs {
		if f.Obj == nil || f.Body == nil || f.Pkg.PkgPath != pathBpmn || f.Obj.Name() != "run" {
			continue
		}
		r := recvNamed(f.Obj)
		if r == nil || !strings.Contains(strings.ToLower(r.Obj().Name()), "catch") {
			continue
		}
		in := info(f)
		for t := range goroutineTree(p, f) {
			tin := info(t)
			inspectNoLit(t.Body, func(m ast.Node) bool {
				el, ok := elementLoop(tin, m)
				if !ok {
					return true
				}
				var coll ast.Expr
				switch x := el.Stmt.(type) {
				case *ast.RangeStmt:
					coll = x.X
				case *ast.ForStmt:
					if be, ok := unparen(x.Cond).(*ast.BinaryExpr); ok {
						if cl, ok := unparen(be.Y).(*ast.CallExpr); ok && len(cl.Args) == 1 {
							coll = cl.Args[0]
						}
					}
				}
				if coll == nil {
					return true
				}
				rs := struct {
					X    ast.Expr
					Body *ast.BlockStmt
					ast.Node
				}{coll, el.Body, el.Stmt}
				sl, ok := tin.TypeOf(rs.X).Underlying().(*types.Slice)
				if !ok || !isReplyChan(sl.Elem()) {
					return true
				}
				// the loop sends an action to the range element
				sends := false
				inspectNoLit(rs.Body, func(z ast.Node) bool {
					if s, ok := z.(*ast.SendStmt); ok && isReplyChan(tin.TypeOf(s.Chan)) {
						sends = true
					}
					return true
				})
				if !sends {
					return true
				}
				n++
				fv, whole := wholeOf(p, t, rs.X, 0)
				wit := "the released set " + exprString(rs.X) + " is not (provably) the whole list of waiters"
				if whole && fv != nil {
					wit = "the loop ranges over the whole waiter list " + fv.Name()
				}
				c.Check(whole && fv != nil, t, rs.Node, "tokens released by a satisfied catch event", what, wit)
				return true
			})
		}
		_ = in
	}
	if n == 0 {
		c.Missing("release loop of a catch event", "no loop that sends actions to a list of parked reply channels was found in a catch event's goroutine")
	}
}

func ruleR113(c *Ctx) {
	p := c.P
	what := "a parallel-multiple catch event fires when every definition has been matched; what has been matched so far lives in the satisfier. Re-creating the satisfier when the node is activated again throws the partial matches of the earlier activation away: an event history in which every definition was matched k times fires fewer than k times"
	isSatisfier := func(t types.Type) bool {
		n := namedOf(t)
		if n == nil || n.Obj().Pkg() == nil || n.Obj().Pkg().Path() != pathLogic {
			return false
		}
		return hasMethod(n, "Satisfy")
	}
	n := 0
	for _, f := range p.Funcs {
		if f.Body == nil || f.Pkg.PkgPath != pathBpmn && shortPkg(f.Pkg.PkgPath) != "model" {
			continue
		}
		in := info(f)
		inspectNoLit(f.Body, func(m ast.Node) bool {
			switch x := m.(type) {
			case *ast.KeyValueExpr:
				if id, ok := x.Key.(*ast.Ident); ok {
					if fv, ok := in.Uses[id].(*types.Var); ok && fv.IsField() && isSatisfier(fv.Type()) {
						n++
						okSite := isConstructorLike(f.Root())
						c.Check(okSite, f, x, "creation of "+fv.Name(), what, ifElse(okSite, "in the node's constructor "+f.Root().QName(), "in "+f.QName()))
					}
				}
			case *ast.AssignStmt:
				for _, l := range x.Lhs {
					if fv := fieldOf(in, l); fv != nil && isSatisfier(fv.Type()) {
						n++
						okSite := isConstructorLike(f.Root())
						c.Check(okSite, f, x, "assignment of "+fv.Name(), what, ifElse(okSite, "in the node's constructor "+f.Root().QName(), "in "+f.QName()+": the satisfier is replaced after construction"))
					}
				}
			}
			return true
		})
	}
	if n == 0 {
		c.Missing("satisfier fields", "no field of a satisfier type is initialised anywhere")
	}
}

// lockRegions: for a function, the statement ranges [lockPos, unlockPos] of explicit Lock/RLock .. Unlock/RUnlock pairs on
// mutex field mu (same statement list), and [lockPos, end of function] for a deferred unlock.
type lockRegion struct {
	mu         *types.Var
	from, to   token.Pos
	write      bool
	deferredUn bool
}

func lockRegionsOf(p *Prog, f *FuncInfo) []lockRegion {
	in := info(f)
	var out []lockRegion
	var walk func(list []ast.Stmt)
	walk = func(list []ast.Stmt) {
		for i, st := range list {
			es, ok := st.(*ast.ExprStmt)
			if !ok {
				continue
			}
			cl, ok := es.X.(*ast.CallExpr)
			if !ok {
				continue
			}
			sel, ok := unparen(cl.Fun).(*ast.SelectorExpr)
			if !ok || (sel.Sel.Name != "Lock" && sel.Sel.Name != "RLock") {
				continue
			}
			mu := fieldOf(in, sel.X)
			if mu == nil {
				continue
			}
			reg := lockRegion{mu: mu, from: st.Pos(), to: f.Body.End(), write: sel.Sel.Name == "Lock", deferredUn: true}
			for _, later := range list[i+1:] {
				if es2, ok := later.(*ast.ExprStmt); ok {
					if cl2, ok := es2.X.(*ast.CallExpr); ok {
						if s2, ok := unparen(cl2.Fun).(*ast.SelectorExpr); ok && (s2.Sel.Name == "Unlock" || s2.Sel.Name == "RUnlock") && fieldOf(in, s2.X) == mu {
							reg.to, reg.deferredUn = later.Pos(), false
							break
						}
					}
				}
				if ds, ok := later.(*ast.DeferStmt); ok {
					if s2, ok := unparen(ds.Call.Fun).(*ast.SelectorExpr); ok && (s2.Sel.Name == "Unlock" || s2.Sel.Name == "RUnlock") && fieldOf(in, s2.X) == mu {
						break
					}
				}
			}
			out = append(out, reg)
		}
	}
	inspectNoLit(f.Body, func(m ast.Node) bool {
		switch x := m.(type) {
		case *ast.BlockStmt:
			walk(x.List)
		case *ast.CaseClause:
			walk(x.Body)
		case *ast.CommClause:
			walk(x.Body)
		}
		return true
	})
	return out
}

func ruleR114(c *Ctx) {
	p := c.P
	what := "copy-on-write only works when the copy and the publication are one atomic step: a writer that reads the current map under one acquisition of the lock, releases it, and later stores its modified copy under another acquisition overwrites whatever another writer published in between — a task's result variable silently disappears when two tasks on parallel branches are answered at nearly the same time"
	n := 0
	for _, f := range p.Funcs {
		if f.Body == nil || !isTargetPkg(p, f.Pkg.PkgPath) {
			continue
		}
		regs := lockRegionsOf(p, f)
		if len(regs) == 0 {
			continue
		}
		in := info(f)
		regionAt := func(pos token.Pos, mu *types.Var) int {
			for i, r := range regs {
				if r.mu == mu && pos >= r.from && pos <= r.to {
					return i
				}
			}
			return -1
		}
		inspectNoLit(f.Body, func(m ast.Node) bool {
			as, ok := m.(*ast.AssignStmt)
			if !ok || len(as.Lhs) != len(as.Rhs) {
				return true
			}
			for i, l := range as.Lhs {
				fv := fieldOf(in, l)
				if fv == nil {
					continue
				}
				// which lock region is the write in?
				wi := -1
				for k, r := range regs {
					if as.Pos() >= r.from && as.Pos() <= r.to && r.write {
						wi = k
					}
				}
				if wi < 0 {
					continue
				}
				n++
				mu := regs[wi].mu
				// the value written: a local? where was it computed from the same field?
				id, ok := unparen(as.Rhs[i]).(*ast.Ident)
				if !ok {
					c.Ok(f, as, "write of "+fv.Name()+" under "+mu.Name(), what, "the value is not a local computed earlier", false)
					continue
				}
				o := objOf(in, id)
				stale := ""
				inspectNoLit(f.Body, func(z ast.Node) bool {
					// statements that fill the local from the field: `x := ..F..`, `for k,v := range F { x[k] = v }`, `x[k] = ..F..`
					var reads ast.Node
					switch y := z.(type) {
					case *ast.AssignStmt:
						for j, ll := range y.Lhs {
							base := unparen(ll)
							if ix, ok := base.(*ast.IndexExpr); ok {
								base = unparen(ix.X)
							}
							if bid, ok := base.(*ast.Ident); ok && objOf(in, bid) == o && j < len(y.Rhs) {
								if exprMentions(y.Rhs[j], func(w ast.Node) bool { e, ok := w.(ast.Expr); return ok && fieldOf(in, e) == fv }) {
									reads = y
								}
								// the copy is made by a helper of the package that reads the field under its own
								// acquisition (x := obj.CloneVariables())
								if cl, ok := unparen(y.Rhs[j]).(*ast.CallExpr); ok {
									if cf := p.byObj[callee(in, cl)]; cf != nil && cf.Pkg == f.Pkg && cf != f.Root() && readsFieldDeep(p, cf, fv, 2) {
										reads = y
									}
								}
							}
						}
					case *ast.RangeStmt:
						if fieldOf(in, y.X) == fv {
							fills := false
							inspectNoLit(y.Body, func(w ast.Node) bool {
								if a2, ok := w.(*ast.AssignStmt); ok {
									for _, ll := range a2.Lhs {
										if ix, ok := unparen(ll).(*ast.IndexExpr); ok {
											if bid, ok := unparen(ix.X).(*ast.Ident); ok && objOf(in, bid) == o {
												fills = true
											}
										}
									}
								}
								if cl, ok := w.(*ast.CallExpr); ok && isBuiltin(in, cl, "append") && len(cl.Args) > 0 {
									if bid, ok := unparen(cl.Args[0]).(*ast.Ident); ok && objOf(in, bid) == o {
										fills = true
									}
								}
								return true
							})
							if fills {
								reads = y
							}
						}
					}
					if reads == nil {
						return true
					}
					ri := regionAt(reads.Pos(), mu)
					if ri != wi {
						where := "outside any acquisition of " + mu.Name()
						if ri >= 0 {
							where = "under an earlier acquisition of " + mu.Name() + " that has been released"
						}
						stale = fmt.Sprintf("%s is computed from %s at %s %s, and stored at %s under a later acquisition", id.Name, fv.Name(), p.Pos(reads.Pos()), where, p.Pos(as.Pos()))
					}
					return true
				})
				c.Check(stale == "", f, as, "write of "+fv.Name()+" under "+mu.Name(), what, ifElse(stale == "", "the stored value is not derived from a read of "+fv.Name()+" made under another acquisition", stale))
			}
			return true
		})
	}
	if n == 0 {
		c.Missing("guarded writes", "no field assignment under an explicit Lock() was found")
	}
}

func ruleR115(c *Ctx) {
	p := c.P
	what := "a start event counts as fired when its token has taken (or failed to take) a flow: one FlowTrace or TerminationTrace per token. Its VisitTrace, LeaveTrace and the like name the same element; counting those as well reaches len(StartEvents()) after the first start event alone, and completion is reported while another start event's branch has not even begun"
	okTrace := func(t types.Type) bool {
		return isNamed(t, pathBpmn, "FlowTrace") || isNamed(t, pathBpmn, "TerminationTrace")
	}
	// inOKArm: node n of function f lies inside an arm of a dispatch on a trace's type whose types are all FlowTrace/TerminationTrace
	inOKArm := func(f *FuncInfo, n ast.Node) bool {
		for _, arms := range typeDispatches(p, f, isITrace) {
			for _, a := range arms {
				if len(a.Types) == 0 {
					continue
				}
				all := true
				for _, t := range a.Types {
					if !okTrace(t) {
						all = false
					}
				}
				if all && n.Pos() >= a.Node.Pos() && n.End() <= a.Node.End() {
					return true
				}
			}
		}
		return false
	}
	n := 0
	for _, f := range p.Funcs {
		if f.Body == nil || f.Pkg.PkgPath != pathBpmn {
			continue
		}
		in := info(f)
		inspectNoLit(f.Body, func(m ast.Node) bool {
			as, ok := m.(*ast.AssignStmt)
			if !ok || len(as.Rhs) != 1 {
				return true
			}
			cl, ok := unparen(as.Rhs[0]).(*ast.CallExpr)
			if !ok || !isBuiltin(in, cl, "append") || len(cl.Args) < 2 {
				return true
			}
			sl, ok := in.TypeOf(cl.Args[0]).Underlying().(*types.Slice)
			if !ok {
				return true
			}
			pt, ok := sl.Elem().Underlying().(*types.Pointer)
			if !ok || !isNamed(pt.Elem(), pathSchema, "StartEvent") {
				return true
			}
			// only the list a completion monitor compares with len(StartEvents())
			lid, ok := unparen(cl.Args[0]).(*ast.Ident)
			if !ok {
				return true
			}
			cmp := false
			ast.Inspect(f.Root().Body, func(z ast.Node) bool {
				if be, ok := z.(*ast.BinaryExpr); ok {
					if exprMentions(be, func(w ast.Node) bool { i, ok := w.(*ast.Ident); return ok && objOf(in, i) == objOf(in, lid) }) &&
						exprMentions(be, func(w ast.Node) bool {
							c2, ok := w.(*ast.CallExpr)
							return ok && callee(in, c2) != nil && callee(in, c2).Name() == "StartEvents"
						}) {
						cmp = true
					}
				}
				return true
			})
			if !cmp {
				return true
			}
			n++
			ok2 := inOKArm(f, as)
			wit := "recorded inside the FlowTrace / TerminationTrace arm of the trace dispatch"
			if !ok2 {
				// recorded from the result of a helper: the helper must produce it inside such an arm
				wit = "the append is not inside a FlowTrace / TerminationTrace arm of a dispatch on the trace's type"
				for _, a := range cl.Args[1:] {
					if aid, isId := unparen(a).(*ast.Ident); isId {
						defs, _ := localDefs(in, f.Root().Body, objOf(in, aid))
						for _, d := range defs {
							if dc, isCall := unparen(d).(*ast.CallExpr); isCall {
								if cf := p.byObj[callee(in, dc)]; cf != nil && cf.Pkg == f.Pkg && cf.Body != nil {
									okAll, k := true, 0
									inspectNoLit(cf.Body, func(z ast.Node) bool {
										switch y := z.(type) {
										case *ast.ReturnStmt:
											if len(y.Results) > 0 && !isNilIdent(y.Results[0]) {
												k++
												if !inOKArm(cf, y) {
													okAll = false
												}
											}
										case *ast.AssignStmt:
											for _, l := range y.Lhs {
												if rid, isId := unparen(l).(*ast.Ident); isId && cf.Obj != nil {
													sig := cf.Obj.Type().(*types.Signature)
													for q := 0; q < sig.Results().Len(); q++ {
														if types.Object(sig.Results().At(q)) == objOf(info(cf), rid) && q == 0 {
															k++
															if !inOKArm(cf, y) {
																okAll = false
															}
														}
													}
												}
											}
										}
										return true
									})
									if okAll && k > 0 {
										ok2, wit = true, "recorded from "+cf.QName()+", which yields a start event only inside its FlowTrace / TerminationTrace arms"
									} else {
										wit = "recorded from " + cf.QName() + ", which yields a start event outside a FlowTrace / TerminationTrace arm"
									}
								}
							}
						}
					}
				}
			}
			c.Check(ok2, f, as, "recording of a fired start event", what, wit)
			return true
		})
	}
	if n == 0 {
		c.Missing("start event accounting", "no append to the list a monitor compares with len(StartEvents()) was found")
	}
}

func ruleR116(c *Ctx) {
	p := c.P
	what := "the tracer acknowledges an unsubscribe request only for a channel it still knows, and Unsubscribe re-offers its request until it is acknowledged or the tracer is done; a second Unsubscribe of the same channel therefore spins until the tracer terminates — which it never does when the caller is one of its registered senders"
	n := 0
	for _, f := range p.Funcs {
		if f.Body == nil || !isTargetPkg(p, f.Pkg.PkgPath) || f.Pkg.PkgPath == pathTracing {
			continue
		}
		in := info(f)
		g := p.Graph(f)
		type un struct {
			n  ast.Node
			pt Point
			v  types.Object
		}
		var uns []un
		for _, pt := range g.AllPoints() {
			nd := pt.Node()
			if nd == nil {
				continue
			}
			if _, isDefer := nd.(*ast.DeferStmt); isDefer {
				continue
			}
			for _, call := range callsIn(nd) {
				if isTracerMethod(in, call, "Unsubscribe") && len(call.Args) == 1 {
					if id, ok := unparen(call.Args[0]).(*ast.Ident); ok {
						uns = append(uns, un{nd, pt, objOf(in, id)})
					}
				}
			}
		}
		deferred := map[types.Object]bool{}
		for _, d := range g.Defers {
			dc := d.Node().(*ast.DeferStmt).Call
			if isTracerMethod(in, dc, "Unsubscribe") && len(dc.Args) == 1 {
				if id, ok := unparen(dc.Args[0]).(*ast.Ident); ok {
					deferred[objOf(in, id)] = true
				}
			}
		}
		for _, a := range uns {
			n++
			twice := ""
			if deferred[a.v] {
				twice = "a deferred Unsubscribe of the same channel runs at the exit as well"
			}
			for _, b := range uns {
				if a.n == b.n || a.v != b.v {
					continue
				}
				if r, _ := g.Reaches(a.pt, func(z ast.Node) bool { return z == b.n }, nil); r {
					twice = "a second Unsubscribe of the same channel is reachable at " + p.Pos(b.n.Pos())
				}
			}
			c.Check(twice == "", f, a.n, "Unsubscribe("+a.v.Name()+")", what, ifElse(twice == "", "no other Unsubscribe of this channel follows on any path", twice))
		}
	}
	if n == 0 {
		c.Missing("Unsubscribe calls", "no explicit Unsubscribe call was found")
	}
}

func ruleR117(c *Ctx) {
	p := c.P
	what := "the completion lock of a process is free before the instance is started and is taken again for every later start event: 'the lock could be taken' is an observation about one moment. A watcher that is started once per instance and latches the first observation answers true for ever after a wait that preceded the start"
	n := 0
	for _, f := range p.Funcs {
		if f.Obj == nil || f.Body == nil || f.Pkg.PkgPath != pathBpmn || f.Obj.Name() != "WaitUntilComplete" {
			continue
		}
		r := recvNamed(f.Obj)
		if r == nil {
			continue
		}
		// only types whose completion is a lock (a sync.RWMutex/Mutex field that the waiter Locks)
		var lockCalls []*ast.CallExpr
		var lockFns []*FuncInfo
		var visit func(fi *FuncInfo)
		visit = func(fi *FuncInfo) {
			fin := info(fi)
			inspectNoLit(fi.Body, func(m ast.Node) bool {
				if cl, ok := m.(*ast.CallExpr); ok {
					if sel, ok := unparen(cl.Fun).(*ast.SelectorExpr); ok && (sel.Sel.Name == "Lock" || sel.Sel.Name == "RLock") {
						if fv := fieldOf(fin, sel.X); fv != nil && (isNamed(fv.Type(), "sync", "RWMutex") || isNamed(fv.Type(), "sync", "Mutex")) {
							lockCalls = append(lockCalls, cl)
							lockFns = append(lockFns, fi)
						}
					}
					// a set of processes is complete when its wait group drains: Wait is the observation there
					if sel, ok := unparen(cl.Fun).(*ast.SelectorExpr); ok && sel.Sel.Name == "Wait" {
						if fv := fieldOf(fin, sel.X); fv != nil && isNamed(fv.Type(), "sync", "WaitGroup") {
							lockCalls = append(lockCalls, cl)
							lockFns = append(lockFns, fi)
						}
					}
				}
				return true
			})
			for _, l := range fi.Lits {
				visit(l)
			}
		}
		visit(f)
		// a helper method that the call launches (go p.signalWhenComplete(ch)) belongs to the call as well
		seenHelper := map[*FuncInfo]bool{}
		helperSite := map[*FuncInfo]ast.Node{}
		ast.Inspect(f.Body, func(m ast.Node) bool {
			if cl, ok := m.(*ast.CallExpr); ok {
				if cf := p.byObj[callee(info(f), cl)]; cf != nil && cf.Pkg == f.Pkg && cf.Body != nil && cf != f && !seenHelper[cf] && recvNamed(cf.Obj) == r {
					seenHelper[cf] = true
					helperSite[cf] = cl
					visit(cf)
				}
			}
			return true
		})
		if len(lockCalls) == 0 {
			continue
		}
		for i, cl := range lockCalls {
			n++
			once := underOnce(p, lockFns[i], cl)
			if site := helperSite[lockFns[i].Root()]; site != nil && !once {
				if sf := p.EnclosingFunc(site); sf != nil {
					once = underOnce(p, sf, site)
				}
			}
			c.Check(!once, lockFns[i], cl, "observation of completion ("+exprString(cl.Fun)+") in "+r.Obj().Name()+".WaitUntilComplete", what, ifElse(!once, "made by a goroutine of this call", "made inside sync.Once.Do: once per instance"))
		}
	}
	if n == 0 {
		c.Missing("completion lock observation", "no WaitUntilComplete that queues on a mutex was found")
	}
}

func ruleR118(c *Ctx) {
	p := c.P
	what := "when a join releases, every parked token gets exactly one action — the surplus ones completeAction. A distributor that returns early for a special input (no outgoing flow) answers nobody: all arrivals stay parked and the instance never completes"
	dist := distributorFuncs(p)
	n := 0
	for fn := range dist {
		f := p.byObj[fn]
		if f == nil || f.Body == nil {
			continue
		}
		in := info(f)
		g := p.Graph(f)
		// the loop over the parked channels (a parameter of type []chan IAction)
		var loop ast.Node
		inspectNoLit(f.Body, func(m ast.Node) bool {
			switch x := m.(type) {
			case *ast.RangeStmt:
				if sl, ok := in.TypeOf(x.X).Underlying().(*types.Slice); ok && isReplyChan(sl.Elem()) {
					loop = x
				}
			case *ast.ForStmt:
				if x.Cond != nil && exprMentions(x.Cond, func(w ast.Node) bool {
					cl, ok := w.(*ast.CallExpr)
					if !ok || !isBuiltin(in, cl, "len") || len(cl.Args) != 1 {
						return false
					}
					sl, ok := in.TypeOf(cl.Args[0]).Underlying().(*types.Slice)
					return ok && isReplyChan(sl.Elem())
				}) {
					loop = x
				}
			}
			return true
		})
		if loop == nil {
			continue
		}
		n++
		bad := g.MustPassBeforeExit(g.Entry(), true, func(m ast.Node) bool { return m != nil && m.Pos() >= loop.Pos() && m.End() <= loop.End() })
		c.Check(len(bad) == 0, f, loop, "loop over the parked tokens of "+f.Obj.Name(), what, ifElse(len(bad) == 0, "every path from the entry to an exit passes the loop", "a path leaves without reaching the loop: "+witnessLines(g, bad)))
	}
	if n == 0 {
		c.Missing("distributor loop", "no function ranging over a []chan IAction parameter was found")
	}
}

// ---- R119, R120, R121 ----

func init() {
	register(&Rule{ID: "R119", Title: "scalar wrappers are written and read verbatim: the XML (un)marshalling of a string-valued schema type does not cut, split or re-qualify the text (whitespace trimming aside)", Min: 1, Run: ruleR119})
	register(&Rule{ID: "R120", Title: "own tracer wins: the per-process tracer a process set gives to each process is the last option handed to NewProcess, after the options the caller supplied", Min: 2, Run: ruleR120})
	register(&Rule{ID: "R121", Title: "one edge per flow: the loop that emits diagram edges skips a flow only when one of its end points is unknown, never because of what the computed geometry looks like", Min: 1, Run: ruleR121})
}

func ruleR119(c *Ctx) {
	p := c.P
	what := "a QName element is written as it is held; a reader that keeps only the part after the last ':' (or any other cut) makes write-then-read lossy for a reference that really is qualified (operationRef svc:approve): the re-parsed model no longer matches the message the original matched"
	lossy := map[string]bool{"LastIndexByte": true, "LastIndex": true, "Index": true, "IndexByte": true, "Split": true, "SplitN": true, "TrimPrefix": true, "TrimSuffix": true, "Cut": true, "TrimLeft": true, "TrimRight": true, "Replace": true, "ReplaceAll": true, "ToLower": true, "ToUpper": true, "Fields": true}
	n := 0
	for _, f := range p.Funcs {
		if f.Obj == nil || f.Body == nil || !strings.HasSuffix(f.Pkg.PkgPath, "/schema") || (f.Obj.Name() != "MarshalXML" && f.Obj.Name() != "UnmarshalXML") {
			continue
		}
		r := recvNamed(f.Obj)
		if r == nil {
			continue
		}
		b, ok := r.Underlying().(*types.Basic)
		if !ok || b.Info()&types.IsString == 0 {
			continue
		}
		n++
		in := info(f)
		bad := ""
		ast.Inspect(f.Body, func(m ast.Node) bool {
			switch x := m.(type) {
			case *ast.SliceExpr:
				if bt, ok := in.TypeOf(x.X).Underlying().(*types.Basic); ok && bt.Info()&types.IsString != 0 {
					bad = "slices the text (" + exprString(x) + ")"
				}
			case *ast.CallExpr:
				if g := callee(in, x); g != nil && g.Pkg() != nil && g.Pkg().Path() == "strings" && lossy[g.Name()] {
					bad = "applies strings." + g.Name()
				}
			}
			return true
		})
		c.Check(bad == "", f, f.Decl, f.Obj.Name()+" of "+r.Obj().Name(), what, ifElse(bad == "", "the text is passed through unchanged", bad))
	}
	if n == 0 {
		c.Missing("scalar wrapper marshalling", "no MarshalXML/UnmarshalXML on a string-valued schema type was found")
	}
}

func ruleR120(c *Ctx) {
	p := c.P
	what := "options are applied in order and the later one wins. Every process of a set gets a tracer of its own, whose traces its watcher reads; if the caller's options (which may contain WithTracer) come after it, all processes share the caller's tracer, every watcher sees every process's CeaseFlowTrace, and the set reports completion when the first process ends"
	isWithTracerOfLocal := func(in *types.Info, e ast.Expr) bool {
		cl, ok := unparen(e).(*ast.CallExpr)
		if !ok {
			return false
		}
		g := callee(in, cl)
		return g != nil && g.Name() == "WithTracer"
	}
	// lastOption: does the options expression e end with WithTracer(...)?
	var endsWithOwn func(f *FuncInfo, e ast.Expr, depth int) (bool, string)
	endsWithOwn = func(f *FuncInfo, e ast.Expr, depth int) (bool, string) {
		in := info(f)
		e = unparen(e)
		switch x := e.(type) {
		case *ast.CallExpr:
			if isBuiltin(in, x, "append") && len(x.Args) >= 2 {
				if x.Ellipsis != token.NoPos {
					return false, "the list ends with the spread " + exprString(x.Args[len(x.Args)-1]) + "..."
				}
				last := x.Args[len(x.Args)-1]
				if isWithTracerOfLocal(in, last) {
					return true, "the list ends with " + exprString(last)
				}
				return false, "the list ends with " + exprString(last)
			}
			if cf := p.byObj[callee(in, x)]; cf != nil && cf.Pkg == f.Pkg && cf.Body != nil && depth < 2 {
				// a helper that builds the list: look at what it returns
				var res string
				ok := false
				seen := false
				cin := info(cf)
				inspectNoLit(cf.Body, func(m ast.Node) bool {
					ret, isRet := m.(*ast.ReturnStmt)
					if !isRet || len(ret.Results) != 1 {
						return true
					}
					seen = true
					r := unparen(ret.Results[0])
					if id, isId := r.(*ast.Ident); isId {
						// the last append to that local, in source order
						var lastAppend *ast.CallExpr
						inspectNoLit(cf.Body, func(z ast.Node) bool {
							if as, isAs := z.(*ast.AssignStmt); isAs && len(as.Lhs) == 1 && len(as.Rhs) == 1 {
								if lid, isL := unparen(as.Lhs[0]).(*ast.Ident); isL && objOf(cin, lid) == objOf(cin, id) {
									if ac, isC := unparen(as.Rhs[0]).(*ast.CallExpr); isC && isBuiltin(cin, ac, "append") {
										lastAppend = ac
									}
								}
							}
							return true
						})
						if lastAppend != nil {
							ok, res = endsWithOwn(cf, lastAppend, depth+1)
							res = "built by " + cf.QName() + ": " + res
							return true
						}
					}
					ok, res = endsWithOwn(cf, r, depth+1)
					res = "built by " + cf.QName() + ": " + res
					return true
				})
				if seen {
					return ok, res
				}
			}
		}
		return false, "cannot tell what the options end with: " + exprString(e)
	}
	n := 0
	for _, f := range p.Funcs {
		if f.Body == nil || f.Pkg.PkgPath != pathBpmn {
			continue
		}
		// only the process set's code
		if r := f.Root(); !(strings.Contains(r.Name, "ProcessSet")) {
			continue
		}
		in := info(f)
		inspectNoLit(f.Body, func(m ast.Node) bool {
			cl, ok := m.(*ast.CallExpr)
			if !ok || cl.Ellipsis == token.NoPos || len(cl.Args) == 0 {
				return true
			}
			g := callee(in, cl)
			if g == nil || g.Name() != "NewProcess" || g.Pkg() == nil || g.Pkg().Path() != pathBpmn {
				return true
			}
			n++
			ok2, wit := endsWithOwn(f, cl.Args[len(cl.Args)-1], 0)
			c.Check(ok2, f, cl, "options of a process of the set", what, wit)
			return true
		})
	}
	if n == 0 {
		c.Missing("process creation in the set", "no NewProcess(...opts...) call was found in the process set")
	}
}

func ruleR121(c *Ctx) {
	p := c.P
	what := "AutoLayout promises one edge per sequence flow. The edge loop may skip a flow whose source or target shape is unknown; a skip that depends on the computed way points (two shapes that touch, a degenerate segment) silently drops the edge of a perfectly ordinary flow for particular gap settings"
	n := 0
	for _, f := range p.Funcs {
		if f.Body == nil || !strings.HasSuffix(f.Pkg.PkgPath, "/schema") || strings.Contains(p.Pos(f.Body.Pos()), "_generated") {
			continue
		}
		in := info(f)
		inspectNoLit(f.Body, func(m ast.Node) bool {
			var body *ast.BlockStmt
			switch x := m.(type) {
			case *ast.RangeStmt:
				body = x.Body
			case *ast.ForStmt:
				body = x.Body
			}
			if body == nil {
				return true
			}
			// does the loop append to a []BPMNEdge?
			appends := false
			inspectNoLit(body, func(z ast.Node) bool {
				if cl, ok := z.(*ast.CallExpr); ok && isBuiltin(in, cl, "append") && len(cl.Args) > 0 {
					if sl, ok := in.TypeOf(cl.Args[0]).Underlying().(*types.Slice); ok && isNamed(sl.Elem(), pathSchema, "BPMNEdge") {
						appends = true
					}
				}
				return true
			})
			if !appends {
				return true
			}
			n++
			// comma-ok booleans of map lookups in this loop
			okFlags := map[types.Object]bool{}
			inspectNoLit(body, func(z ast.Node) bool {
				if as, ok := z.(*ast.AssignStmt); ok && len(as.Lhs) == 2 && len(as.Rhs) == 1 {
					if ix, ok := unparen(as.Rhs[0]).(*ast.IndexExpr); ok {
						if _, isMap := in.TypeOf(ix.X).Underlying().(*types.Map); isMap {
							if id, ok := as.Lhs[1].(*ast.Ident); ok {
								okFlags[objOf(in, id)] = true
							}
						}
					}
				}
				return true
			})
			var bad []string
			inspectNoLit(body, func(z ast.Node) bool {
				switch y := z.(type) {
				case *ast.ForStmt, *ast.RangeStmt:
					return false
				case *ast.BranchStmt:
					if y.Tok != token.CONTINUE && y.Tok != token.BREAK {
						return true
					}
					for _, cnd := range controlConds(p, f, y) {
						if cnd.Pos() < body.Pos() || cnd.End() > body.End() {
							continue
						}
						onlyFlags := true
						ast.Inspect(cnd, func(w ast.Node) bool {
							switch v := w.(type) {
							case *ast.Ident:
								if o := objOf(in, v); o != nil {
									if _, isVar := o.(*types.Var); isVar && !okFlags[o] {
										onlyFlags = false
									}
								}
							case *ast.CallExpr:
								onlyFlags = false
							}
							return true
						})
						if !onlyFlags {
							bad = append(bad, y.Tok.String()+" at "+p.Pos(y.Pos())+" under "+exprString(cndExpr(cnd)))
						}
					}
				}
				return true
			})
			sort.Strings(bad)
			c.Check(len(bad) == 0, f, m, "skips in the loop that emits edges", what, ifElse(len(bad) == 0, "a flow is skipped only on the comma-ok results of the end-point lookups", strings.Join(bad, "; ")))
			return true
		})
	}
	if n == 0 {
		c.Missing("edge loop", "no loop appending to a []BPMNEdge was found in the builder")
	}
}

// ---- R122 ----

func init() {
	register(&Rule{ID: "R122", Title: "hooks are asked each time: what a token's hook (termination channel lookup, action transformer) returns is used where it is obtained, never kept in a field of the token", Min: 1, Run: ruleR122})
}

func ruleR122(c *Ctx) {
	p := c.P
	what := "the event-based gateway hands out a NEW withdrawal channel to every token each round and replaces its table when a round is decided; a token that remembers the channel it was given for 'this node' keeps the closed channel of the previous round when a loop brings it back — it can no longer be withdrawn, and the winner of the next round blocks for ever notifying it"
	ll := longLivedTypes(p)
	n := 0
	for _, f := range p.Funcs {
		if f.Body == nil || f.Pkg.PkgPath != pathBpmn {
			continue
		}
		in := info(f)
		isHookCall := func(e ast.Expr) (string, bool) {
			cl, ok := unparen(e).(*ast.CallExpr)
			if !ok {
				return "", false
			}
			fv := fieldOf(in, cl.Fun)
			if fv == nil {
				return "", false
			}
			if _, isFn := fv.Type().Underlying().(*types.Signature); !isFn {
				return "", false
			}
			sel := unparen(cl.Fun).(*ast.SelectorExpr)
			if owner := namedOf(in.TypeOf(sel.X)); owner == nil || !ll[owner] {
				return "", false
			}
			return fv.Name(), true
		}
		inspectNoLit(f.Body, func(m ast.Node) bool {
			switch x := m.(type) {
			case *ast.CallExpr:
				if name, ok := isHookCall(x); ok {
					n++
					stored := ""
					if as, ok := p.Parent(x).(*ast.AssignStmt); ok {
						for _, l := range as.Lhs {
							if lf := fieldOf(in, l); lf != nil {
								stored = lf.Name()
							}
						}
					}
					c.Check(stored == "", f, x, "result of hook "+name, what, ifElse(stored == "", "used where it is obtained (returned, received from, or bound to a local)", "stored in field "+stored))
				}
			}
			return true
		})
	}
	if n == 0 {
		c.Missing("hook calls", "no call of a function-typed field of a token or node was found")
	}
}

// readsFieldDeep: does f (or a same-package function it calls, depth-bounded) read field fv?
func readsFieldDeep(p *Prog, f *FuncInfo, fv *types.Var, depth int) bool {
	if f == nil || f.Body == nil {
		return false
	}
	in := info(f)
	hit := false
	ast.Inspect(f.Body, func(n ast.Node) bool {
		if hit {
			return false
		}
		switch x := n.(type) {
		case *ast.SelectorExpr:
			if fieldOf(in, x) == fv {
				hit = true
			}
		case *ast.CallExpr:
			if depth > 0 {
				if cf := p.byObj[callee(in, x)]; cf != nil && cf.Pkg == f.Pkg && cf != f && readsFieldDeep(p, cf, fv, depth-1) {
					hit = true
				}
			}
		}
		return !hit
	})
	return hit
}
