package main

import (
	"encoding/json"
	"fmt"
	"os"
	"sort"
	"strings"
)

// claimable: all quick rules of the property are implemented.
func claimable(s *PropSpec) (bool, []string) {
	var missing []string
	for _, id := range append(append([]string{}, s.Quick...), s.Thorough...) {
		if i := strings.IndexByte(id, '['); i > 0 {
			id = id[:i]
		}
		if rules[id] == nil {
			missing = append(missing, id)
		}
	}
	return len(missing) == 0, missing
}

func emitManifest(path string, baselineOff string) error {
	var ids []string
	for id := range propSpecs {
		ids = append(ids, id)
	}
	sort.Strings(ids)
	var checks []map[string]any
	var na []map[string]any
	for _, id := range ids {
		s := propSpecs[id]
		ok, missing := claimable(s)
		if !ok {
			na = append(na, map[string]any{"property_id": id, "reason": "static rules " + strings.Join(missing, ",") + " that this property's structural clauses need are not implemented (yet); no claim is made rather than a partial one that would silently pass"})
			continue
		}
		all := append(append([]string{}, s.Quick...), s.Thorough...)
		checks = append(checks, map[string]any{
			"property_id":         id,
			"quick_cmd":           "./run.sh " + id + " quick",
			"thorough_cmd":        "./run.sh " + id + " thorough",
			"evidence_file":       "/verif/evidence/" + id + ".json",
			"replay_cmd_template": "bin/bpmnlint -replay {path}",
			"engine":              "bpmnlint",
			"technique":           "repository-specific static analysis over the type-checked AST, per-function CFG (dominance, must-pass-through, path search) and channel/goroutine inventory; rules " + strings.Join(all, ","),
			"level_claimed": map[string]any{
				"category":   "other",
				"text":       "Static decision of structural necessary conditions of " + id + " (not of the behaviour itself) on every path / for every instance of the constructs named by the rules " + strings.Join(all, ",") + ". " + s.Explanation,
				"design_ref": "DESIGN.md §3 (rules), §4 " + id,
			},
			"level_note": "Not decided: " + s.NotDecided + " Trusted: go/types, go/packages (x/tools v0.29.0), the vendored go/cfg with select modelling, the rule definitions in checker/*.go, the analysed build (linux; thorough also darwin) being the build that runs. Findings listed in known_findings.json are printed as KNOWN-FINDING and do not fail the check.",
		})
	}
	m := map[string]any{
		"version":   1,
		"setup_cmd": "./setup.sh",
		"hooks": map[string]any{
			"guard":            "verif",
			"enable":           "none needed: static analysis reads /repo's sources; no instrumentation is compiled in",
			"baseline_off_cmd": baselineOff,
			"source_commits":   []string{},
			"add_only":         true,
		},
		"engines": []map[string]any{{
			"name": "bpmnlint", "path": "checker/", "kind_free_text": "custom static analyser (go/packages + go/types + vendored go/cfg; SSA loaded for call-graph rules)",
			"serves_properties": ids,
		}},
		"checks":         checks,
		"not_applicable": na,
		"notes":          "All checks are static: nothing of /repo is executed. Every run reloads /repo's working tree. thorough = quick rules + thorough-only rules + a second load with GOOS=darwin (build-tagged clock file).",
	}
	if na == nil {
		m["not_applicable"] = []map[string]any{}
	}
	b, err := json.MarshalIndent(m, "", " ")
	if err != nil {
		return err
	}
	if path == "-" {
		fmt.Println(string(b))
		return nil
	}
	return os.WriteFile(path, append(b, '\n'), 0o644)
}
