package bpmn_test

// F12: a process set reports completion (and may never instantiate the target) when a thrower ends right
// after its throw. The watcher of process A posts the throw to the set's pump and then, on A's
// CeaseFlowTrace, leaves: the set's wait group drops to zero while the throw message is still in the
// pump's mailbox. WaitUntilComplete returns true — no process B has been started yet — and the pump's
// select sees `done` and the message ready at once: when it picks `done` it emits the cease-process-set
// trace and returns, and the message flow never instantiates B at all.
//
// Run from /repo:  go test -vet=off -count=1 -run TestF12 .
// Before the fix: fails in most of the 40 rounds. After: passes.

import (
	"context"
	"encoding/xml"
	"sync/atomic"
	"testing"
	"time"

	"github.com/olive-io/bpmn/schema"
	"github.com/olive-io/bpmn/v2"
	"github.com/olive-io/bpmn/v2/pkg/tracing"
)

const f12XML = `<?xml version="1.0" encoding="UTF-8"?>
<bpmn:definitions xmlns:bpmn="http://www.omg.org/spec/BPMN/20100524/MODEL" id="defs" targetNamespace="http://bpmn.io/schema/bpmn">
  <bpmn:collaboration id="collab">
    <bpmn:participant id="pa" processRef="A" />
    <bpmn:participant id="pb" processRef="B" />
    <bpmn:messageFlow id="mf1" sourceRef="a_throw" targetRef="b_start" />
  </bpmn:collaboration>
  <bpmn:process id="A" isExecutable="true">
    <bpmn:startEvent id="a_start"><bpmn:outgoing>a_f1</bpmn:outgoing></bpmn:startEvent>
    <bpmn:intermediateThrowEvent id="a_throw"><bpmn:incoming>a_f1</bpmn:incoming><bpmn:outgoing>a_f2</bpmn:outgoing></bpmn:intermediateThrowEvent>
    <bpmn:endEvent id="a_end"><bpmn:incoming>a_f2</bpmn:incoming></bpmn:endEvent>
    <bpmn:sequenceFlow id="a_f1" sourceRef="a_start" targetRef="a_throw" />
    <bpmn:sequenceFlow id="a_f2" sourceRef="a_throw" targetRef="a_end" />
  </bpmn:process>
  <bpmn:process id="B" isExecutable="false">
    <bpmn:startEvent id="b_start"><bpmn:outgoing>b_f1</bpmn:outgoing></bpmn:startEvent>
    <bpmn:task id="b_task" name="b_task"><bpmn:incoming>b_f1</bpmn:incoming><bpmn:outgoing>b_f2</bpmn:outgoing></bpmn:task>
    <bpmn:endEvent id="b_end"><bpmn:incoming>b_f2</bpmn:incoming></bpmn:endEvent>
    <bpmn:sequenceFlow id="b_f1" sourceRef="b_start" targetRef="b_task" />
    <bpmn:sequenceFlow id="b_f2" sourceRef="b_task" targetRef="b_end" />
  </bpmn:process>
</bpmn:definitions>`

func TestF12ThrowerEndsRightAfterItsThrow(t *testing.T) {
	early, never := 0, 0
	const rounds = 40
	for r := 0; r < rounds; r++ {
		var defs schema.Definitions
		if err := xml.Unmarshal([]byte(f12XML), &defs); err != nil {
			t.Fatal(err)
		}
		ctx, cancel := context.WithCancel(context.Background())
		ps, err := bpmn.NewEngine().NewProcessSet(&defs, bpmn.WithContext(ctx))
		if err != nil {
			t.Fatal(err)
		}
		var bTask atomic.Int32
		traces := ps.Tracer().Subscribe()
		go func() {
			for tr := range traces {
				if tt, ok := tracing.Unwrap(tr).(bpmn.TaskTrace); ok {
					bTask.Add(1)
					tt.Do()
				}
			}
		}()
		if err := ps.StartAll(ctx); err != nil {
			t.Fatal(err)
		}
		wctx, wcancel := context.WithTimeout(ctx, 5*time.Second)
		done := ps.WaitUntilComplete(wctx)
		wcancel()
		seenAtCompletion := bTask.Load()
		if done && seenAtCompletion == 0 {
			early++ // "complete" although the process the throw instantiates has not run
			time.Sleep(300 * time.Millisecond)
			if bTask.Load() == 0 {
				never++ // ... and it never will
			}
		}
		cancel()
	}
	if early > 0 {
		t.Fatalf("in %d of %d rounds WaitUntilComplete returned true before the message flow had instantiated process B (in %d of them B was never instantiated at all)", early, rounds, never)
	}
}
