package bpmn_test

import (
	"context"
	"encoding/xml"
	"testing"
	"time"

	"github.com/olive-io/bpmn/schema"
	"github.com/olive-io/bpmn/v2"
	"github.com/olive-io/bpmn/v2/pkg/tracing"
)

// F17 (property C02: "Completion is reported iff all start events fired and no token remains"):
//
//	startA -> sub[ istart -> iend ] -> endA
//	startB -> endB
//
// Only startA is started. startB never fires, so completion must not be reported. The completion monitor counts
// "start events that fired" by looking at the source of flow traces; the flow trace of the sub-process's inner start
// event is forwarded into the same tracer and is counted as the second start event of the process.
const f17Doc = `<?xml version="1.0" encoding="UTF-8"?>
<bpmn:definitions xmlns:bpmn="http://www.omg.org/spec/BPMN/20100524/MODEL" id="Definitions_f17" targetNamespace="http://bpmn.io/schema/bpmn">
  <bpmn:process id="f17" isExecutable="true">
    <bpmn:startEvent id="startA"><bpmn:outgoing>a1</bpmn:outgoing></bpmn:startEvent>
    <bpmn:subProcess id="sub">
      <bpmn:incoming>a1</bpmn:incoming>
      <bpmn:outgoing>a2</bpmn:outgoing>
      <bpmn:startEvent id="istart"><bpmn:outgoing>i1</bpmn:outgoing></bpmn:startEvent>
      <bpmn:endEvent id="iend"><bpmn:incoming>i1</bpmn:incoming></bpmn:endEvent>
      <bpmn:sequenceFlow id="i1" sourceRef="istart" targetRef="iend"/>
    </bpmn:subProcess>
    <bpmn:endEvent id="endA"><bpmn:incoming>a2</bpmn:incoming></bpmn:endEvent>
    <bpmn:startEvent id="startB"><bpmn:outgoing>b1</bpmn:outgoing></bpmn:startEvent>
    <bpmn:endEvent id="endB"><bpmn:incoming>b1</bpmn:incoming></bpmn:endEvent>
    <bpmn:sequenceFlow id="a1" sourceRef="startA" targetRef="sub"/>
    <bpmn:sequenceFlow id="a2" sourceRef="sub" targetRef="endA"/>
    <bpmn:sequenceFlow id="b1" sourceRef="startB" targetRef="endB"/>
  </bpmn:process>
</bpmn:definitions>`

func TestF17InnerStartEventIsNotAStartEventOfTheProcess(t *testing.T) {
	var defs schema.Definitions
	if err := xml.Unmarshal([]byte(f17Doc), &defs); err != nil {
		t.Fatal(err)
	}
	ctx, cancel := context.WithCancel(context.Background())
	defer cancel()
	ins, err := bpmn.NewEngine().NewProcess(&defs)
	if err != nil {
		t.Fatal(err)
	}
	traces := ins.Tracer().SubscribeChannel(make(chan tracing.ITrace, 256))
	var startA schema.FlowNodeInterface
	p := &(*defs.Processes())[0]
	for j := range *p.StartEvents() {
		if id, ok := (*p.StartEvents())[j].Id(); ok && *id == "startA" {
			startA = &(*p.StartEvents())[j]
		}
	}
	if err = ins.StartWith(ctx, startA); err != nil {
		t.Fatal(err)
	}
	reachedEndA, ceased := false, false
	deadline := time.After(3 * time.Second)
loop:
	for {
		select {
		case tr := <-traces:
			switch tt := tracing.Unwrap(tr).(type) {
			case bpmn.VisitTrace:
				if id, ok := tt.Node.Id(); ok && *id == "endA" {
					reachedEndA = true
				}
			case bpmn.CeaseFlowTrace:
				if _, isProcess := tt.Process.(*schema.Process); isProcess {
					ceased = true
				}
			}
		case <-deadline:
			break loop
		}
	}
	if !reachedEndA {
		t.Fatal("the token of startA did not reach endA")
	}
	wctx, wcancel := context.WithTimeout(ctx, 500*time.Millisecond)
	defer wcancel()
	complete := ins.WaitUntilComplete(wctx)
	if ceased || complete {
		t.Fatalf("startB never fired, yet completion was reported (CeaseFlowTrace=%v, WaitUntilComplete=%v)", ceased, complete)
	}
}
