package bpmn_test

import (
	"context"
	"encoding/xml"
	"strings"
	"testing"
	"time"

	"github.com/olive-io/bpmn/schema"
	"github.com/olive-io/bpmn/v2"
	"github.com/olive-io/bpmn/v2/pkg/tracing"
)

// F13 (property C12, "... and when the sub-process is entered repeatedly in a loop"):
//
//	start -> sub[ istart -> work -> iend ] --(iter < 2)--> sub
//	                                       --(iter >= 2)-> end
//
// The inner task reports iter = 1, 2, ...: the sub-process has to be entered twice and the instance has to
// complete. On the engine as it is the second activation never requests `work`: the inner start event has fired
// already (it answers completeAction to every later trigger) and the one-shot completion monitor of the
// sub-process ended with the first activation, so the parent's token stays in the sub-process for ever.
const f13Doc = `<?xml version="1.0" encoding="UTF-8"?>
<bpmn:definitions xmlns:bpmn="http://www.omg.org/spec/BPMN/20100524/MODEL" xmlns:xsi="http://www.w3.org/2001/XMLSchema-instance" xmlns:olive="http://olive.io/spec/BPMN/MODEL" id="Definitions_f13" targetNamespace="http://bpmn.io/schema/bpmn" expressionLanguage="https://github.com/expr-lang/expr">
  <bpmn:process id="f13" isExecutable="true">
    <bpmn:startEvent id="start">
      <bpmn:outgoing>toSub</bpmn:outgoing>
    </bpmn:startEvent>
    <bpmn:subProcess id="sub">
      <bpmn:incoming>toSub</bpmn:incoming>
      <bpmn:incoming>again</bpmn:incoming>
      <bpmn:outgoing>again</bpmn:outgoing>
      <bpmn:outgoing>done</bpmn:outgoing>
      <bpmn:startEvent id="istart">
        <bpmn:outgoing>toWork</bpmn:outgoing>
      </bpmn:startEvent>
      <bpmn:serviceTask id="work">
        <bpmn:incoming>toWork</bpmn:incoming>
        <bpmn:outgoing>toIend</bpmn:outgoing>
        <bpmn:extensionElements>
          <olive:results>
            <olive:field name="iter" type="integer"/>
          </olive:results>
        </bpmn:extensionElements>
      </bpmn:serviceTask>
      <bpmn:endEvent id="iend">
        <bpmn:incoming>toIend</bpmn:incoming>
      </bpmn:endEvent>
      <bpmn:sequenceFlow id="toWork" sourceRef="istart" targetRef="work"/>
      <bpmn:sequenceFlow id="toIend" sourceRef="work" targetRef="iend"/>
    </bpmn:subProcess>
    <bpmn:endEvent id="end">
      <bpmn:incoming>done</bpmn:incoming>
    </bpmn:endEvent>
    <bpmn:sequenceFlow id="toSub" sourceRef="start" targetRef="sub"/>
    <bpmn:sequenceFlow id="again" sourceRef="sub" targetRef="sub">
      <bpmn:conditionExpression xsi:type="bpmn:tFormalExpression">iter &lt; 2</bpmn:conditionExpression>
    </bpmn:sequenceFlow>
    <bpmn:sequenceFlow id="done" sourceRef="sub" targetRef="end">
      <bpmn:conditionExpression xsi:type="bpmn:tFormalExpression">iter &gt;= 2</bpmn:conditionExpression>
    </bpmn:sequenceFlow>
  </bpmn:process>
</bpmn:definitions>`

func TestF13SubProcessEnteredTwice(t *testing.T) {
	var defs schema.Definitions
	if err := xml.Unmarshal([]byte(f13Doc), &defs); err != nil {
		t.Fatalf("unmarshal: %v", err)
	}
	ctx, cancel := context.WithCancel(context.Background())
	defer cancel()
	engine := bpmn.NewEngine(bpmn.WithEngineContext(ctx))
	ins, err := engine.NewProcess(&defs, bpmn.WithContext(ctx), bpmn.WithVariables(map[string]any{"iter": 0}))
	if err != nil {
		t.Fatalf("NewProcess: %v", err)
	}
	traces := ins.Tracer().SubscribeChannel(make(chan tracing.ITrace, 256))
	if err = ins.StartAll(ctx); err != nil {
		t.Fatalf("StartAll: %v", err)
	}
	var tasks, visits []string
	n := 0
	deadline := time.After(8 * time.Second)
	for {
		select {
		case tr := <-traces:
			switch tt := tracing.Unwrap(tr).(type) {
			case bpmn.VisitTrace:
				if id, ok := tt.Node.Id(); ok {
					visits = append(visits, *id)
				}
			case bpmn.TaskTrace:
				id, _ := tt.GetActivity().Element().Id()
				tasks = append(tasks, *id)
				n++
				tt.Do(bpmn.DoWithResults(map[string]any{"iter": n}))
			case bpmn.ErrorTrace:
				t.Errorf("error trace: %v", tt.Error)
			case bpmn.CeaseFlowTrace:
				if _, isProcess := tt.Process.(*schema.Process); isProcess {
					if s := strings.Join(tasks, ","); s != "work,work" {
						t.Errorf("requested %q, want work,work", s)
					}
					return
				}
			}
		case <-deadline:
			t.Fatalf("the instance did not complete: tasks requested %v, visits %v", tasks, visits)
		}
	}
}
