package bpmn_test

import (
	"context"
	"encoding/xml"
	"testing"
	"time"

	"github.com/olive-io/bpmn/schema"
	"github.com/olive-io/bpmn/v2"
	"github.com/olive-io/bpmn/v2/pkg/event"
	"github.com/olive-io/bpmn/v2/pkg/tracing"
)

// F15 (property C11: "An event handed to an instance reaches every catch event that is listening at that moment"):
//
//	start -> sub[ istart -> wait (catch sig1) -> iend ] -> end
//
// Once `wait` reports ActiveListeningTrace, sig1 is handed to the instance. The catch event has to continue and the
// instance has to complete. On the engine as it is the nodes of a sub-process register as event consumers of the
// sub-process object, and the sub-process never registers with the scope it lives in: its ConsumeEvent is never
// called and no event reaches a catch event inside a sub-process.
const f15Doc = `<?xml version="1.0" encoding="UTF-8"?>
<bpmn:definitions xmlns:bpmn="http://www.omg.org/spec/BPMN/20100524/MODEL" id="Definitions_f15" targetNamespace="http://bpmn.io/schema/bpmn">
  <bpmn:process id="f15" isExecutable="true">
    <bpmn:startEvent id="start"><bpmn:outgoing>toSub</bpmn:outgoing></bpmn:startEvent>
    <bpmn:subProcess id="sub">
      <bpmn:incoming>toSub</bpmn:incoming>
      <bpmn:outgoing>toEnd</bpmn:outgoing>
      <bpmn:startEvent id="istart"><bpmn:outgoing>toWait</bpmn:outgoing></bpmn:startEvent>
      <bpmn:intermediateCatchEvent id="wait">
        <bpmn:incoming>toWait</bpmn:incoming>
        <bpmn:outgoing>toIend</bpmn:outgoing>
        <bpmn:signalEventDefinition id="sed" signalRef="sig1" />
      </bpmn:intermediateCatchEvent>
      <bpmn:endEvent id="iend"><bpmn:incoming>toIend</bpmn:incoming></bpmn:endEvent>
      <bpmn:sequenceFlow id="toWait" sourceRef="istart" targetRef="wait"/>
      <bpmn:sequenceFlow id="toIend" sourceRef="wait" targetRef="iend"/>
    </bpmn:subProcess>
    <bpmn:endEvent id="end"><bpmn:incoming>toEnd</bpmn:incoming></bpmn:endEvent>
    <bpmn:sequenceFlow id="toSub" sourceRef="start" targetRef="sub"/>
    <bpmn:sequenceFlow id="toEnd" sourceRef="sub" targetRef="end"/>
  </bpmn:process>
  <bpmn:signal id="sig1" name="sig1" />
</bpmn:definitions>`

func TestF15EventReachesCatchEventInsideSubProcess(t *testing.T) {
	var defs schema.Definitions
	if err := xml.Unmarshal([]byte(f15Doc), &defs); err != nil {
		t.Fatal(err)
	}
	ctx, cancel := context.WithCancel(context.Background())
	defer cancel()
	ins, err := bpmn.NewEngine().NewProcess(&defs)
	if err != nil {
		t.Fatal(err)
	}
	traces := ins.Tracer().SubscribeChannel(make(chan tracing.ITrace, 256))
	if err = ins.StartAll(ctx); err != nil {
		t.Fatal(err)
	}
	listening := false
	deadline := time.After(5 * time.Second)
	for !listening {
		select {
		case tr := <-traces:
			if tt, ok := tracing.Unwrap(tr).(bpmn.ActiveListeningTrace); ok {
				if id, ok := tt.Node.Id(); ok && *id == "wait" {
					listening = true
				}
			}
		case <-deadline:
			t.Fatal("the catch event inside the sub-process never listened")
		}
	}
	if _, err = ins.ConsumeEvent(event.NewSignalEvent("sig1")); err != nil {
		t.Fatal(err)
	}
	go func() {
		for range traces {
		}
	}()
	wctx, wcancel := context.WithTimeout(ctx, 5*time.Second)
	defer wcancel()
	if !ins.WaitUntilComplete(wctx) {
		t.Fatal("sig1 was delivered while the catch event inside the sub-process was listening, but the instance did not complete")
	}
}
