package id

import (
	"context"
	"sync"
	"testing"

	"github.com/olive-io/bpmn/v2/pkg/tracing"
)

func TestSnoConcurrentDistinct(t *testing.T) {
	ctx, cancel := context.WithCancel(context.Background())
	defer cancel()
	tr := tracing.NewTracer(ctx)
	g, err := GetSno().NewIdGenerator(ctx, tr)
	if err != nil {
		t.Fatal(err)
	}
	const G, N = 16, 200000
	out := make([][]string, G)
	var wg sync.WaitGroup
	for i := 0; i < G; i++ {
		wg.Add(1)
		go func(i int) {
			defer wg.Done()
			s := make([]string, 0, N)
			for k := 0; k < N; k++ {
				s = append(s, g.New().String())
			}
			out[i] = s
		}(i)
	}
	wg.Wait()
	seen := make(map[string]int, G*N)
	dup := 0
	for _, s := range out {
		for _, x := range s {
			seen[x]++
			if seen[x] == 2 {
				dup++
			}
		}
	}
	if dup > 0 {
		t.Fatalf("%d duplicate ids among %d", dup, G*N)
	}
}
