package schema

import "testing"

// A float stored into an item that is declared `float` (e.g. a task property
// `type="float"` filled from a variable) must read back as the same number.
func TestF7TypedFloatKeepsItsValue(t *testing.T) {
	for _, f := range []float64{3.141592653589793, 2.5e-09, 1e-07, 1e21, 0.1} {
		v := &Value{ItemType: ItemTypeFloat}
		v.ValueFrom(f)
		if got := v.ValueFor(); got != f {
			t.Errorf("typed float %v: stored as %q, read back %v", f, v.ItemValue, got)
		}
		u := NewValue(f)
		if got := u.ValueFor(); got != f {
			t.Errorf("untyped float %v: stored as %q, read back %v", f, u.ItemValue, got)
		}
	}
	v := &Value{ItemType: ItemTypeFloat}
	v.ValueFrom(float32(0.1))
	if got := v.ValueFor(); float32(got.(float64)) != float32(0.1) {
		t.Errorf("typed float32 0.1 read back %v", got)
	}
}
