// F1-4 demo: the inclusive gateway's flowTracker never unsubscribes and is only
// shut down by the gateway's run goroutine.
//
// Target: repository root, package bpmn (white-box only to look at the length of
// the tracker's subscription channel in (b); (a) uses public API + CPU time).
// Copy this file to /tmp/wt/F1/f1_4_demo_test.go and run
//
//   cd /tmp/wt/F1 && GOPROXY=off GOSUMDB=off GOTOOLCHAIN=local go test -vet=off -count=1 -timeout 120s -run 'TestF1_4' -v .
//
// All three tests FAIL on the unmodified library.
//   TestF1_4a_NeverStarted / TestF1_4a_SecondGatewayNeverReached: after cancel the
//     instance tracer terminates and closes the subscription channels; every
//     flowTracker whose gateway never got a token keeps running and busy-spins
//     on the closed channel forever (one core per inclusive gateway).
//   TestF1_4b_AbandonedSubscriptionBlocksBroadcaster: after the gateway's run
//     goroutine has left (ctx.Done) nobody reads the tracker's subscription
//     (cap 10) any more; with more than 10 further traces the broadcaster
//     (*tracer).run blocks forever in `subscriber <- trace`, the tracer never
//     terminates, every still running node/token is stuck in tracer.Send.
package bpmn

import (
	"context"
	"encoding/xml"
	"fmt"
	"os"
	"regexp"
	"runtime"
	"strings"
	"syscall"
	"testing"
	"time"

	"github.com/olive-io/bpmn/schema"
	"github.com/olive-io/bpmn/v2/pkg/tracing"
)

func f14CPU() time.Duration {
	var ru syscall.Rusage
	if err := syscall.Getrusage(syscall.RUSAGE_SELF, &ru); err != nil {
		panic(err)
	}
	return time.Duration(ru.Utime.Nano() + ru.Stime.Nano())
}

// CPU time consumed by the whole test process during a 200ms sleep.
func f14Burn() time.Duration {
	c0 := f14CPU()
	time.Sleep(200 * time.Millisecond)
	return f14CPU() - c0
}

// goroutines whose stack matches re
func f14Goroutines(re *regexp.Regexp) (n int, sample string) {
	buf := make([]byte, 32<<20)
	buf = buf[:runtime.Stack(buf, true)]
	for _, g := range strings.Split(string(buf), "\n\n") {
		if re.MatchString(g) {
			n++
			sample = g
		}
	}
	return
}

var f14TrackerRun = regexp.MustCompile(`github\.com/olive-io/bpmn/v2\.\(\*flowTracker\)\.run\(`)

func f14Parse(t *testing.T, src []byte) *schema.Definitions {
	var defs schema.Definitions
	if err := xml.Unmarshal(src, &defs); err != nil {
		t.Fatal(err)
	}
	return &defs
}

func f14Load(t *testing.T, file string) *schema.Definitions {
	src, err := os.ReadFile(file)
	if err != nil {
		t.Fatal(err)
	}
	return f14Parse(t, src)
}

func f14Drain(ch chan tracing.ITrace) {
	go func() {
		for range ch {
		}
	}()
}

// (a1) An instance that is created but never started (2 inclusive gateways).
func TestF1_4a_NeverStarted(t *testing.T) {
	defs := f14Load(t, "testdata/inclusive_gateway.bpmn")
	ctx, cancel := context.WithCancel(context.Background())
	defer cancel()
	trackersBefore, _ := f14Goroutines(f14TrackerRun)
	proc, err := NewEngine().NewProcess(defs, WithContext(ctx), WithTracer(tracing.NewTracer(ctx)))
	if err != nil {
		t.Fatal(err)
	}
	idle := f14Burn()
	cancel()
	select {
	case <-proc.Tracer().Done():
	case <-time.After(2 * time.Second):
		t.Fatal("tracer did not terminate (unexpected here)")
	}
	select {
	case <-proc.subTracer.Done():
	case <-time.After(2 * time.Second):
		t.Fatal("instance tracer did not terminate (unexpected here)")
	}
	time.Sleep(300 * time.Millisecond)
	burn1 := f14Burn()
	time.Sleep(1 * time.Second)
	burn2 := f14Burn()
	trackers, sample := f14Goroutines(f14TrackerRun)
	trackers -= trackersBefore
	t.Logf("CPU per 200ms: before cancel %v; 0.3s after termination %v; 1.5s after termination %v; flowTracker.run goroutines still alive: %d", idle, burn1, burn2, trackers)
	if trackers > 0 && burn2-idle > 150*time.Millisecond {
		t.Errorf("both tracers have terminated, but %d flowTracker goroutines are still running and burn %v CPU per 200ms more than before cancel (busy loop on the closed subscription channel)\n%s", trackers, burn2-idle, sample)
	}
}

// (a2) A started instance; g1 is reached (its tracker is shut down by g1's run
// goroutine on cancel), g2 is never reached.
func TestF1_4a_SecondGatewayNeverReached(t *testing.T) {
	defs := f14Load(t, "testdata/inclusive_gateway.bpmn")
	ctx, cancel := context.WithCancel(context.Background())
	defer cancel()
	trackersBefore, _ := f14Goroutines(f14TrackerRun)
	tracer := tracing.NewTracer(ctx)
	traces := tracer.SubscribeChannel(make(chan tracing.ITrace, 256))
	proc, err := NewEngine().NewProcess(defs, WithContext(ctx), WithTracer(tracer))
	if err != nil {
		t.Fatal(err)
	}
	if err = proc.StartAll(ctx); err != nil {
		t.Fatal(err)
	}
	// wait until both tokens are parked in their tasks (a1, a2); do not answer
	tasks := 0
	deadline := time.After(3 * time.Second)
	for tasks < 2 {
		select {
		case tr := <-traces:
			if _, ok := tracing.Unwrap(tr).(TaskTrace); ok {
				tasks++
			}
		case <-deadline:
			t.Fatal("tasks not reached")
		}
	}
	f14Drain(traces)
	time.Sleep(20 * time.Millisecond)
	idle := f14Burn()
	cancel()
	select {
	case <-proc.Tracer().Done():
	case <-time.After(2 * time.Second):
		t.Skip("tracer did not terminate: another cancellation defect hit this run, try again")
	}
	time.Sleep(300 * time.Millisecond)
	burn1 := f14Burn()
	time.Sleep(1 * time.Second)
	burn2 := f14Burn()
	trackers, sample := f14Goroutines(f14TrackerRun)
	trackers -= trackersBefore
	t.Logf("CPU per 200ms: before cancel %v; 0.3s after termination %v; 1.5s after termination %v; flowTracker.run goroutines still alive: %d", idle, burn1, burn2, trackers)
	if trackers > 0 && burn2-idle > 150*time.Millisecond {
		t.Errorf("the tracer has terminated, but %d flowTracker goroutine (gateway g2, never reached) is still running and burns %v CPU per 200ms more than before cancel\n%s", trackers, burn2-idle, sample)
	}
}

// (b) start -> inclusive gateway g1 -> parallel fork -> 16 tasks.  Cancel while
// the 16 tokens are parked in their tasks: ~65 cancellation traces follow.
func f14BigProcess() []byte {
	var b strings.Builder
	b.WriteString(`<?xml version="1.0" encoding="UTF-8"?>
<bpmn:definitions xmlns:bpmn="http://www.omg.org/spec/BPMN/20100524/MODEL" xmlns:xsi="http://www.w3.org/2001/XMLSchema-instance" id="defs" targetNamespace="http://bpmn.io/schema/bpmn" expressionLanguage="https://github.com/expr-lang/expr">
  <bpmn:process id="proc" isExecutable="true">
    <bpmn:startEvent id="start"><bpmn:outgoing>f_start</bpmn:outgoing></bpmn:startEvent>
    <bpmn:sequenceFlow id="f_start" sourceRef="start" targetRef="g1" />
    <bpmn:inclusiveGateway id="g1"><bpmn:incoming>f_start</bpmn:incoming><bpmn:outgoing>f_g1</bpmn:outgoing></bpmn:inclusiveGateway>
    <bpmn:sequenceFlow id="f_g1" sourceRef="g1" targetRef="fork" />
    <bpmn:parallelGateway id="fork"><bpmn:incoming>f_g1</bpmn:incoming>`)
	const n = 16
	for i := 0; i < n; i++ {
		fmt.Fprintf(&b, `<bpmn:outgoing>f_t%d</bpmn:outgoing>`, i)
	}
	b.WriteString(`</bpmn:parallelGateway>`)
	for i := 0; i < n; i++ {
		fmt.Fprintf(&b, `
    <bpmn:sequenceFlow id="f_t%d" sourceRef="fork" targetRef="t%d" />
    <bpmn:task id="t%d"><bpmn:incoming>f_t%d</bpmn:incoming><bpmn:outgoing>f_e%d</bpmn:outgoing></bpmn:task>
    <bpmn:sequenceFlow id="f_e%d" sourceRef="t%d" targetRef="end" />`, i, i, i, i, i, i, i)
	}
	b.WriteString(`
    <bpmn:endEvent id="end">`)
	for i := 0; i < n; i++ {
		fmt.Fprintf(&b, `<bpmn:incoming>f_e%d</bpmn:incoming>`, i)
	}
	b.WriteString(`</bpmn:endEvent>
  </bpmn:process>
</bpmn:definitions>`)
	return []byte(b.String())
}

func TestF1_4b_AbandonedSubscriptionBlocksBroadcaster(t *testing.T) {
	defs := f14Parse(t, f14BigProcess())
	blocked := regexp.MustCompile(`^goroutine \d+ \[chan send[^\]]*\]:\ngithub\.com/olive-io/bpmn/v2/pkg/tracing\.\(\*tracer\)\.run\(`)
	blockedBefore, _ := f14Goroutines(blocked)
	const N = 30
	for k := 0; k < N; k++ {
		ctx, cancel := context.WithCancel(context.Background())
		defer cancel()
		tracer := tracing.NewTracer(ctx)
		traces := tracer.SubscribeChannel(make(chan tracing.ITrace, 1024))
		proc, err := NewEngine().NewProcess(defs, WithContext(ctx), WithTracer(tracer))
		if err != nil {
			t.Fatal(err)
		}
		if err = proc.StartAll(ctx); err != nil {
			t.Fatal(err)
		}
		tasks := 0
		deadline := time.After(3 * time.Second)
		for tasks < 16 {
			select {
			case tr := <-traces:
				switch tt := tracing.Unwrap(tr).(type) {
				case TaskTrace:
					tasks++
				case ErrorTrace:
					t.Fatalf("%v", tt.Error)
				}
			case <-deadline:
				t.Fatalf("only %d tasks reached", tasks)
			}
		}
		f14Drain(traces) // the test's own subscription is always kept empty
		time.Sleep(20 * time.Millisecond)
		cancel()
		select {
		case <-proc.Tracer().Done():
			continue // g1's cancellation trace happened to be among the last ones
		case <-time.After(1 * time.Second):
		}
		n, sample := f14Goroutines(blocked)
		node, _ := proc.flowNodeMapping.mapping["g1"].(*inclusiveGateway)
		trk := node.flowTracker
		trackerGone := false
		select {
		case <-trk.shutdownCh:
			trackerGone = true
		default:
		}
		t.Logf("iteration %d: tracer not terminated 1s after cancel; broadcaster goroutines blocked in chan send: %d; g1 tracker shut down: %v; g1 tracker subscription len/cap = %d/%d",
			k+1, n-blockedBefore, trackerGone, len(trk.traces), cap(trk.traces))
		if n > blockedBefore && trackerGone && len(trk.traces) == cap(trk.traces) {
			t.Errorf("iteration %d/%d: the instance tracer never terminates: (*tracer).run is blocked forever sending to the full (10/10) subscription channel of g1's flowTracker, which was shut down when g1's run goroutine left and never unsubscribed\n%s", k+1, N, sample)
			return
		}
	}
	t.Logf("not reproduced in %d iterations", N)
}
