// F1-6 demo: goroutines that call tracer.Send without being registered senders
// block forever in Send once the tracer has terminated.
//
// Target: repository root (package bpmn_test, black-box, public API only).
// Copy this file to /tmp/wt/F1/f1_6_demo_test.go and run
//
//   cd /tmp/wt/F1 && GOPROXY=off GOSUMDB=off GOTOOLCHAIN=local go test -vet=off -count=1 -timeout 120s -run 'TestF1_6_' -v .
//
// FAILS on the unmodified library: an instance of testdata/task.bpmn is cancelled
// while its task request is pending (TaskTrace delivered, not answered).  The
// tracer terminates properly (Done() closed, subscription closed) as soon as all
// *registered* senders are done; (*genericTask).run and/or its per-request
// goroutine -- which are not registered -- then sit forever in
// (*tracer).Send (`t.traces <- trace`, nobody receives any more).
// The test sets GOMAXPROCS(2) itself; 40 iterations.
package bpmn_test

import (
	"context"
	"encoding/xml"
	"os"
	"regexp"
	"runtime"
	"strings"
	"testing"
	"time"

	"github.com/olive-io/bpmn/schema"
	bpmn "github.com/olive-io/bpmn/v2"
	"github.com/olive-io/bpmn/v2/pkg/tracing"
)

var f16Stuck = regexp.MustCompile(`^goroutine \d+ \[chan send[^\]]*\]:\ngithub\.com/olive-io/bpmn/v2/pkg/tracing\.\(\*tracer\)\.Send\([^\n]*\n[^\n]*\ngithub\.com/olive-io/bpmn/v2\.\(\*genericTask\)\.run`)

func f16Count() (n int, samples []string) {
	buf := make([]byte, 32<<20)
	buf = buf[:runtime.Stack(buf, true)]
	for _, g := range strings.Split(string(buf), "\n\n") {
		if f16Stuck.MatchString(g) {
			n++
			samples = append(samples, g)
		}
	}
	return
}

func TestF1_6_UnregisteredSenderBlocksAfterTracerTerminated(t *testing.T) {
	src, err := os.ReadFile("testdata/task.bpmn")
	if err != nil {
		t.Fatal(err)
	}
	var defs schema.Definitions
	if err = xml.Unmarshal(src, &defs); err != nil {
		t.Fatal(err)
	}

	// With two Ps the effect shows in roughly every third instance (the
	// tracers' busy loops after cancel delay the other goroutines enough); with
	// 16 Ps we saw it in about 1% of the instances (2/100, 0/100, 0/100).
	defer runtime.GOMAXPROCS(runtime.GOMAXPROCS(2))
	const N = 40
	before, _ := f16Count()
	terminated, hits, leakedGoroutines := 0, 0, 0
	for k := 0; k < N; k++ {
		ctx, cancel := context.WithCancel(context.Background())
		tracer := tracing.NewTracer(ctx)
		traces := tracer.SubscribeChannel(make(chan tracing.ITrace, 256))
		proc, err := bpmn.NewEngine().NewProcess(&defs, bpmn.WithContext(ctx), bpmn.WithTracer(tracer))
		if err != nil {
			t.Fatal(err)
		}
		if err = proc.StartAll(ctx); err != nil {
			t.Fatal(err)
		}
		deadline := time.After(3 * time.Second)
	wait:
		for {
			select {
			case tr := <-traces:
				if _, ok := tracing.Unwrap(tr).(bpmn.TaskTrace); ok {
					break wait // the task request is pending now; we never answer it
				}
			case <-deadline:
				t.Fatal("task not reached")
			}
		}
		time.Sleep(2 * time.Millisecond)
		cancel()
		closed := make(chan struct{})
		go func() { // keep our subscription empty until the tracer closes it
			for range traces {
			}
			close(closed)
		}()
		select {
		case <-proc.Tracer().Done():
		case <-time.After(2 * time.Second):
			cancel()
			continue // some other cancellation defect hit this iteration
		}
		select {
		case <-closed:
		case <-time.After(2 * time.Second):
			t.Fatal("Done() closed but subscription not closed")
		}
		terminated++
		// Both the outer tracer and (because the relay only finishes after it) the
		// instance tracer have terminated.  Give stragglers time to finish.
		time.Sleep(100 * time.Millisecond)
		n, _ := f16Count()
		if n-before > leakedGoroutines {
			hits++
			leakedGoroutines = n - before
		}
	}
	time.Sleep(500 * time.Millisecond)
	n, samples := f16Count()
	n -= before
	t.Logf("%d iterations, tracer terminated (Done closed) in %d of them; in %d of those at least one genericTask goroutine was left blocked in tracer.Send; %d such goroutines still parked 0.5s after the last iteration",
		N, terminated, hits, n)
	if n > 0 {
		t.Errorf("%d goroutines parked forever in (*tracer).Send after the tracer's Done() closed (%d/%d instances affected), e.g.:\n%s", n, hits, terminated, samples[len(samples)-1])
	}
}
