// F1-5 demo: timer goroutine stranded in `ch <- definition` (pkg/timer New()).
//
// Target: /tmp/wt/F1/pkg/timer (package timer_test, black-box, public API only).
// Copy this file to /tmp/wt/F1/pkg/timer/f1_5_demo_test.go and run
//
//   cd /tmp/wt/F1 && GOPROXY=off GOSUMDB=off GOTOOLCHAIN=local go test -vet=off -count=1 -timeout 60s -run 'TestF1_5_' -v ./pkg/timer/
//
// All three tests FAIL on the unmodified library: after the context has been
// cancelled (and the consumer of the timer channel has left through its
// ctx.Done case, exactly like the goroutine in event.go does) goroutines started
// by timer.New stay parked forever in a chan send.
package timer_test

import (
	"bytes"
	"context"
	"encoding/xml"
	"regexp"
	"runtime"
	"strings"
	"sync"
	"testing"
	"time"

	"github.com/olive-io/bpmn/schema"
	"github.com/olive-io/bpmn/v2/pkg/clock"
	"github.com/olive-io/bpmn/v2/pkg/event"
	"github.com/olive-io/bpmn/v2/pkg/timer"
	"github.com/olive-io/bpmn/v2/pkg/tracing"
)

func f15Definition(t *testing.T) schema.TimerEventDefinition {
	definition := schema.DefaultTimerEventDefinition()
	duration := schema.AnExpression{}
	if err := xml.NewDecoder(bytes.NewBufferString(`<bpmn:expression>PT30M</bpmn:expression>`)).Decode(&duration); err != nil {
		t.Fatal(err)
	}
	definition.SetTimeDuration(&duration)
	return definition
}

// goroutines parked in a chan send inside a closure of timer.New
var f15Stranded = regexp.MustCompile(`^goroutine \d+ \[chan send[^\]]*\]:\ngithub\.com/olive-io/bpmn/v2/pkg/timer\.New\.func\d+\(`)

func f15Count() (n int, sample string) {
	buf := make([]byte, 32<<20)
	buf = buf[:runtime.Stack(buf, true)]
	for _, g := range strings.Split(string(buf), "\n\n") {
		if f15Stranded.MatchString(g) {
			n++
			sample = g
		}
	}
	return
}

// consumer behaves like the goroutine in event.go: select on ctx.Done and the timer channel.
func f15Consumer(ctx context.Context, ch chan schema.TimerEventDefinition, wg *sync.WaitGroup) {
	defer wg.Done()
	for {
		select {
		case <-ctx.Done():
			return
		case _, ok := <-ch:
			if !ok {
				return
			}
		}
	}
}

// Variant 1: timer and consumer are both parked; the clock reaches the due time
// and the context is cancelled back to back.
func TestF1_5_DueAndCancelBackToBack(t *testing.T) {
	const N = 100
	before, _ := f15Count()
	var consumers sync.WaitGroup
	for k := 0; k < N; k++ {
		c := clock.NewMock()
		ctx, cancel := context.WithCancel(context.Background())
		ch, err := timer.New(ctx, c, f15Definition(t))
		if err != nil {
			t.Fatal(err)
		}
		consumers.Add(1)
		go f15Consumer(ctx, ch, &consumers)
		time.Sleep(time.Millisecond) // both goroutines are parked in their selects
		c.Add(30 * time.Minute)      // hands the tick to dateTimeTimer (timer case chosen)
		cancel()                     // releases the consumer through ctx.Done
	}
	consumers.Wait() // every consumer has left
	time.Sleep(300 * time.Millisecond)
	n, sample := f15Count()
	n -= before
	t.Logf("%d/%d timer goroutines stranded in chan send 300ms after all contexts were cancelled and all consumers had returned", n, N)
	if n > 0 {
		t.Errorf("%d/%d timer goroutines leaked:\n%s", n, N, sample)
	}
}

// Variant 2: the context is cancelled first, then the mock clock reaches the due
// time; the timer goroutine has just been started, so it sees both cases ready.
func TestF1_5_CancelThenDue(t *testing.T) {
	const N = 100
	before, _ := f15Count()
	var consumers sync.WaitGroup
	for k := 0; k < N; k++ {
		c := clock.NewMock()
		ctx, cancel := context.WithCancel(context.Background())
		ch, err := timer.New(ctx, c, f15Definition(t))
		if err != nil {
			t.Fatal(err)
		}
		consumers.Add(1)
		go f15Consumer(ctx, ch, &consumers)
		cancel()
		c.Add(30 * time.Minute)
	}
	consumers.Wait()
	time.Sleep(300 * time.Millisecond)
	n, sample := f15Count()
	n -= before
	t.Logf("%d/%d timer goroutines stranded in chan send 300ms after all contexts were cancelled and all consumers had returned", n, N)
	if n > 0 {
		t.Errorf("%d/%d timer goroutines leaked:\n%s", n, N, sample)
	}
}

// Variant 3: through the library's own consumer (event.go, NewEventDefinitionInstance).
func TestF1_5_EventDefinitionInstanceBuilder(t *testing.T) {
	const N = 100
	before, _ := f15Count()
	for k := 0; k < N; k++ {
		c := clock.NewMock()
		ctx, cancel := context.WithCancel(clock.ToContext(context.Background(), c))
		tracer := tracing.NewTracer(ctx)
		builder := timer.EventDefinitionInstanceBuilder(ctx, event.NewFanOut(), tracer)
		def := f15Definition(t)
		if _, err := builder.NewEventDefinitionInstance(&def); err != nil {
			t.Fatal(err)
		}
		time.Sleep(time.Millisecond)
		c.Add(30 * time.Minute)
		cancel()
	}
	time.Sleep(500 * time.Millisecond)
	n, sample := f15Count()
	n -= before
	t.Logf("%d/%d timer goroutines stranded in chan send 500ms after all contexts were cancelled", n, N)
	if n > 0 {
		t.Errorf("%d/%d timer goroutines leaked (consumer goroutine of event.go left through ctx.Done):\n%s", n, N, sample)
	}
}
