// F1-2 demo: token goroutine parked forever inside (*harness).NextAction (`return <-response`).
//
// Target: repository root, package bpmn (white-box: uses Process.subTracer to
// subscribe with an unbuffered channel, i.e. a "slow subscriber", nothing else).
// Copy this file to /tmp/wt/F1/f1_2_demo_test.go and run
//
//   cd /tmp/wt/F1 && GOPROXY=off GOSUMDB=off GOTOOLCHAIN=local go test -vet=off -count=1 -timeout 120s -run 'TestF1_2_' -v .
//
// Both tests FAIL on the unmodified library.
//   TestF1_2_CancelBeforeTokenReachesTask: deterministic schedule, outcome is the
//     coin flip of the select in (*harness).run (mailbox vs ctx.Done), bounded by 60 iterations.
//   TestF1_2_CancelRightAfterStart (plain black-box usage: StartAll; cancel): timing dependent,
//     bounded by 3000 iterations / 20s.
//
// Failure = 500ms after cancel() the instance tracer has not terminated and the
// token goroutine ((*flow).Start.func1) is parked forever in a chan receive in
// (*harness).NextAction; it still holds its sender handle and its flowWaitGroup count.
package bpmn

import (
	"context"
	"encoding/xml"
	"os"
	"regexp"
	"runtime"
	"strings"
	"testing"
	"time"

	"github.com/olive-io/bpmn/schema"
	"github.com/olive-io/bpmn/v2/pkg/tracing"
)

func f12Load(t *testing.T, file string) *schema.Definitions {
	t.Helper()
	src, err := os.ReadFile(file)
	if err != nil {
		t.Fatal(err)
	}
	var defs schema.Definitions
	if err = xml.Unmarshal(src, &defs); err != nil {
		t.Fatal(err)
	}
	return &defs
}

// f12Parked counts goroutines blocked in a channel receive whose innermost frame
// is the library function fn (e.g. "(*startEvent).run" or "distributeFlows").
func f12Parked(fn string) (n int, sample string) {
	buf := make([]byte, 32<<20)
	buf = buf[:runtime.Stack(buf, true)]
	re := regexp.MustCompile(`^goroutine \d+ \[chan receive[^\]]*\]:\n` + regexp.QuoteMeta("github.com/olive-io/bpmn/v2."+fn) + `\(`)
	for _, g := range strings.Split(string(buf), "\n\n") {
		if re.MatchString(g) {
			n++
			sample = g
		}
	}
	return
}

type f12Instance struct {
	ctx    context.Context
	cancel context.CancelFunc
	proc   *Process
	traces chan tracing.ITrace // subscription on the instance's (inner) tracer
}

// f12New creates an instance; the test subscribes to the instance tracer with a
// channel of the given capacity (0 = the broadcaster waits for the test at every trace).
func f12New(t *testing.T, defs *schema.Definitions, capacity int) *f12Instance {
	ctx, cancel := context.WithCancel(context.Background())
	proc, err := NewEngine().NewProcess(defs, WithContext(ctx), WithTracer(tracing.NewTracer(ctx)))
	if err != nil {
		t.Fatal(err)
	}
	traces := proc.subTracer.SubscribeChannel(make(chan tracing.ITrace, capacity))
	return &f12Instance{ctx: ctx, cancel: cancel, proc: proc, traces: traces}
}

// until consumes traces until pred is true (bounded).
func (i *f12Instance) until(t *testing.T, pred func(tracing.ITrace) bool) {
	deadline := time.After(3 * time.Second)
	for {
		select {
		case tr := <-i.traces:
			if pred(tracing.Unwrap(tr)) {
				return
			}
		case <-deadline:
			t.Fatal("expected trace never seen")
		}
	}
}

// drain keeps the subscription empty from now on.
func (i *f12Instance) drain(stop <-chan struct{}) {
	go func() {
		for {
			select {
			case _, ok := <-i.traces:
				if !ok {
					return
				}
			case <-stop:
				return
			}
		}
	}()
}

// f12Hunt runs `once` (create + start + cancel at an interesting moment) up to n
// times, stopping at the first instance that never terminates with a goroutine
// parked in a chan receive in fn.  (Every stuck instance also leaves busy-spinning
// tracer goroutines behind, so we do not want to collect many of them.)
func f12Hunt(t *testing.T, n int, fn string, once func(k int) *f12Instance) {
	before, _ := f12Parked(fn)
	stuckOther := 0
	giveUp := time.Now().Add(20 * time.Second)
	for k := 0; k < n && time.Now().Before(giveUp); k++ {
		inst := once(k)
		select {
		case <-inst.proc.Tracer().Done():
			continue
		case <-time.After(500 * time.Millisecond):
		}
		if parked, sample := f12Parked(fn); parked > before {
			t.Errorf("iteration %d/%d: 500ms after cancel() the instance tracer has not terminated and a library goroutine is parked forever in a chan receive in %s (%d earlier iterations stuck for other reasons):\n%s",
				k+1, n, fn, stuckOther, sample)
			return
		}
		if stuckOther++; stuckOther > 8 {
			break
		}
	}
	t.Logf("no goroutine parked in %s after at most %d iterations / 20s (%d instances stuck for other reasons)", fn, n, stuckOther)
}


// The token is on its way from the start event to the task.  The test is a slow
// subscriber: after LeaveTrace{start} it stops receiving, so the token is held
// in tracer.Send; then the context is cancelled and the subscription is drained
// again.  The token evaluates task.NextAction (harness): this starts
// (*harness).run and posts the request; the fresh harness goroutine finds both
// its mailbox and ctx.Done ready; if select picks ctx.Done it exits without
// answering and the token stays in `return <-response` forever.
func TestF1_2_CancelBeforeTokenReachesTask(t *testing.T) {
	defs := f12Load(t, "testdata/task.bpmn")
	stop := make(chan struct{})
	defer close(stop)
	f12Hunt(t, 60, "(*harness).NextAction", func(k int) *f12Instance {
		inst := f12New(t, defs, 0)
		go func() {
			if err := inst.proc.StartAll(inst.ctx); err != nil {
				t.Error(err)
			}
		}()
		inst.until(t, func(tr tracing.ITrace) bool {
			if l, ok := tr.(LeaveTrace); ok {
				if id, present := l.Node.Id(); present && *id == "start" {
					return true
				}
			}
			return false
		})
		time.Sleep(2 * time.Millisecond) // token is now blocked in tracer.Send
		inst.cancel()
		inst.drain(stop)
		return inst
	})
}

// Plain usage: start the instance and cancel it immediately.
func TestF1_2_CancelRightAfterStart(t *testing.T) {
	defs := f12Load(t, "testdata/task.bpmn")
	stop := make(chan struct{})
	defer close(stop)
	f12Hunt(t, 3000, "(*harness).NextAction", func(k int) *f12Instance {
		inst := f12New(t, defs, 64)
		inst.drain(stop)
		if err := inst.proc.StartAll(inst.ctx); err != nil {
			t.Fatal(err)
		}
		x := 0
		for s := 0; s < (k%40)*100; s++ { // vary the cancellation point a little
			x += s
		}
		_ = x
		inst.cancel()
		return inst
	})
}
