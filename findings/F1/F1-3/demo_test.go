// F1-3 demo: (*tracer).run and the NewRelay goroutine busy-spin after cancellation.
//
// Target: /tmp/wt/F1/pkg/tracing (package tracing_test, black-box, public API only).
// Copy this file to /tmp/wt/F1/pkg/tracing/f1_3_demo_test.go and run
//
//   cd /tmp/wt/F1 && GOPROXY=off GOSUMDB=off GOTOOLCHAIN=local go test -vet=off -count=1 -timeout 60s -run 'TestF1_3_' -v ./pkg/tracing/
//
// Both tests FAIL on the unmodified library: between cancel() and termination
// the goroutine burns (nearly) a full core; an idle, not cancelled tracer/relay
// uses no measurable CPU.  Measured with getrusage(RUSAGE_SELF) over 200ms.
package tracing_test

import (
	"context"
	"syscall"
	"testing"
	"time"

	"github.com/olive-io/bpmn/v2/pkg/tracing"
)

func f13CPU() time.Duration {
	var ru syscall.Rusage
	if err := syscall.Getrusage(syscall.RUSAGE_SELF, &ru); err != nil {
		panic(err)
	}
	return time.Duration(ru.Utime.Nano() + ru.Stime.Nano())
}

// f13Burn returns the process CPU time consumed during a 200ms sleep.
func f13Burn() time.Duration {
	c0 := f13CPU()
	time.Sleep(200 * time.Millisecond)
	return f13CPU() - c0
}

func TestF1_3_TracerRunSpinsAfterCancel(t *testing.T) {
	ctx, cancel := context.WithCancel(context.Background())
	defer cancel()
	tr := tracing.NewTracer(ctx)
	handle := tr.RegisterSender() // e.g. a flow node that has not finished yet

	idle := f13Burn()
	cancel()
	spinning := f13Burn()

	select {
	case <-tr.Done():
		t.Fatal("tracer terminated although a sender is still registered")
	default:
	}

	handle.Done()
	select {
	case <-tr.Done():
	case <-time.After(2 * time.Second):
		t.Fatal("tracer did not terminate after the last sender was done")
	}
	after := f13Burn()

	t.Logf("CPU used per 200ms wall clock: idle before cancel=%v, cancelled with pending sender=%v, after termination=%v", idle, spinning, after)
	if spinning > 100*time.Millisecond && spinning > 10*idle {
		t.Errorf("(*tracer).run busy-spins between cancellation and termination: %v CPU in 200ms (idle: %v, terminated: %v)", spinning, idle, after)
	}
}

func TestF1_3_RelaySpinsAfterCancel(t *testing.T) {
	inCtx, inCancel := context.WithCancel(context.Background())
	defer inCancel()
	in := tracing.NewTracer(inCtx)
	out := tracing.NewTracer(context.Background())

	relayCtx, relayCancel := context.WithCancel(context.Background())
	defer relayCancel()
	tracing.NewRelay(relayCtx, in, out, func(trace tracing.ITrace) []tracing.ITrace { return []tracing.ITrace{trace} })

	idle := f13Burn()
	relayCancel() // the relay's own context; `in` is still alive
	spinning := f13Burn()

	inCancel() // `in` has no senders: it terminates, and only that makes the relay goroutine leave
	select {
	case <-in.Done():
	case <-time.After(2 * time.Second):
		t.Fatal("in tracer did not terminate")
	}
	time.Sleep(20 * time.Millisecond)
	after := f13Burn()

	t.Logf("CPU used per 200ms wall clock: idle before cancel=%v, relay ctx cancelled=%v, after `in` terminated=%v", idle, spinning, after)
	if spinning > 100*time.Millisecond && spinning > 10*idle {
		t.Errorf("NewRelay goroutine busy-spins from cancellation of its context until in.Done(): %v CPU in 200ms (idle: %v, afterwards: %v)", spinning, idle, after)
	}
}
