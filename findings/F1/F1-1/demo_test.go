// F1-1 demo: unbuffered per-request reply channels + bare send in the node goroutine.
//
// Target: repository root, package bpmn (white-box: uses Process.subTracer to
// subscribe with an unbuffered channel, i.e. a "slow subscriber", nothing else).
// Copy this file to /tmp/wt/F1/f1_1_demo_test.go and run
//
//   cd /tmp/wt/F1 && GOPROXY=off GOSUMDB=off GOTOOLCHAIN=local go test -vet=off -count=1 -timeout 120s -run 'TestF1_1_' -v .
//
// TestF1_1_CatchEvent, TestF1_1_ParallelGateway, TestF1_1_EventBasedGateway and
// TestF1_1_InclusiveGateway FAIL on the unmodified library (catch event: first
// iteration; the three gateways: coin flip of the gateway's select per
// iteration, bounded by 60 iterations).  TestF1_1_StartEvent is a pure timing
// race with a very small window (see comment there); observed hit rate about
// 1-4% per iteration when the machine is otherwise idle, i.e. it FAILS within
// the first few hundred of its (at most 15000 / 20s) iterations (it runs first
// for that reason: the instances left stuck by the other tests busy-spin and
// change the timing; run after them it found nothing in 20s once).
//
// Failure = 500ms after cancel() the instance tracer has not terminated
// (Done() still open, subscriber channels not closed) and a library goroutine is
// parked forever in a `chan send` inside (*X).run.
package bpmn

import (
	"context"
	"encoding/xml"
	"os"
	"regexp"
	"runtime"
	"strings"
	"testing"
	"time"

	"github.com/olive-io/bpmn/schema"
	"github.com/olive-io/bpmn/v2/pkg/event"
	"github.com/olive-io/bpmn/v2/pkg/tracing"
)

func f11Load(t *testing.T, file string) *schema.Definitions {
	t.Helper()
	src, err := os.ReadFile(file)
	if err != nil {
		t.Fatal(err)
	}
	var defs schema.Definitions
	if err = xml.Unmarshal(src, &defs); err != nil {
		t.Fatal(err)
	}
	return &defs
}

// f11Parked counts goroutines blocked in a channel send whose innermost frame
// is the library function fn (e.g. "(*startEvent).run" or "distributeFlows").
func f11Parked(fn string) (n int, sample string) {
	buf := make([]byte, 32<<20)
	buf = buf[:runtime.Stack(buf, true)]
	re := regexp.MustCompile(`^goroutine \d+ \[chan send[^\]]*\]:\n` + regexp.QuoteMeta("github.com/olive-io/bpmn/v2."+fn) + `\(`)
	for _, g := range strings.Split(string(buf), "\n\n") {
		if re.MatchString(g) {
			n++
			sample = g
		}
	}
	return
}

type f11Instance struct {
	ctx    context.Context
	cancel context.CancelFunc
	proc   *Process
	traces chan tracing.ITrace // subscription on the instance's (inner) tracer
}

// f11New creates an instance; the test subscribes to the instance tracer with a
// channel of the given capacity (0 = the broadcaster waits for the test at every trace).
func f11New(t *testing.T, defs *schema.Definitions, capacity int) *f11Instance {
	ctx, cancel := context.WithCancel(context.Background())
	proc, err := NewEngine().NewProcess(defs, WithContext(ctx), WithTracer(tracing.NewTracer(ctx)))
	if err != nil {
		t.Fatal(err)
	}
	traces := proc.subTracer.SubscribeChannel(make(chan tracing.ITrace, capacity))
	return &f11Instance{ctx: ctx, cancel: cancel, proc: proc, traces: traces}
}

// until consumes traces until pred is true (bounded).
func (i *f11Instance) until(t *testing.T, pred func(tracing.ITrace) bool) {
	deadline := time.After(3 * time.Second)
	for {
		select {
		case tr := <-i.traces:
			if pred(tracing.Unwrap(tr)) {
				return
			}
		case <-deadline:
			t.Fatal("expected trace never seen")
		}
	}
}

// drain keeps the subscription empty from now on.
func (i *f11Instance) drain(stop <-chan struct{}) {
	go func() {
		for {
			select {
			case _, ok := <-i.traces:
				if !ok {
					return
				}
			case <-stop:
				return
			}
		}
	}()
}

// f11Hunt runs `once` (create + start + cancel at an interesting moment) up to n
// times, stopping at the first instance that never terminates with a goroutine
// parked in a chan send in fn.  (Every stuck instance also leaves busy-spinning
// tracer goroutines behind, so we do not want to collect many of them.)
func f11Hunt(t *testing.T, n int, fn string, once func(k int) *f11Instance) {
	before, _ := f11Parked(fn)
	stuckOther := 0
	giveUp := time.Now().Add(20 * time.Second)
	for k := 0; k < n && time.Now().Before(giveUp); k++ {
		inst := once(k)
		select {
		case <-inst.proc.Tracer().Done():
			continue
		case <-time.After(500 * time.Millisecond):
		}
		if parked, sample := f11Parked(fn); parked > before {
			t.Errorf("iteration %d/%d: 500ms after cancel() the instance tracer has not terminated and a library goroutine is parked forever in a chan send in %s (%d earlier iterations stuck for other reasons):\n%s",
				k+1, n, fn, stuckOther, sample)
			return
		}
		if stuckOther++; stuckOther > 8 {
			break
		}
	}
	t.Logf("no goroutine parked in %s after at most %d iterations / 20s (%d instances stuck for other reasons)", fn, n, stuckOther)
}

// Start event.  Its goroutine exists before the first token, so the only window
// is: token posted the request (this wakes the start event goroutine with the
// mailbox case) -> cancel -> token's select sees ctx.Done before the start event
// goroutine reaches `m.response <- flowAction{}`.  That is well below a
// microsecond; we just cancel right after StartAll returns and try many times.
func TestF1_1_StartEvent(t *testing.T) {
	defs := f11Load(t, "testdata/start.bpmn")
	stop := make(chan struct{})
	defer close(stop)
	f11Hunt(t, 15000, "(*startEvent).run", func(k int) *f11Instance {
		inst := f11New(t, defs, 64)
		inst.drain(stop)
		if err := inst.proc.StartAll(inst.ctx); err != nil {
			t.Fatal(err)
		}
		x := 0
		for s := 0; s < (k%40)*50; s++ { // vary the cancellation point (0..~1us)
			x += s
		}
		_ = x
		inst.cancel()
		return inst
	})
}

// Catch event.  Four tokens wait at catch events.  Deliver the signal and cancel
// back to back: the catch event goroutine has been handed the event (mailbox
// case), emits EventObservedTrace, and then does `actionChan <- flowAction{}`
// towards a token that meanwhile left through ctx.Done.
func TestF1_1_CatchEvent(t *testing.T) {
	defs := f11Load(t, "testdata/intermediate_catch_event.bpmn")
	stop := make(chan struct{})
	defer close(stop)
	f11Hunt(t, 20, "(*catchEvent).run", func(k int) *f11Instance {
		inst := f11New(t, defs, 64)
		if err := inst.proc.StartAll(inst.ctx); err != nil {
			t.Fatal(err)
		}
		listening := 0
		inst.until(t, func(tr tracing.ITrace) bool {
			if _, ok := tr.(ActiveListeningTrace); ok {
				listening++
			}
			return listening == 4
		})
		inst.drain(stop)
		time.Sleep(2 * time.Millisecond) // all four tokens wait for their reply now
		if _, err := inst.proc.ConsumeEvent(event.NewSignalEvent("global_sig1")); err != nil {
			t.Fatal(err)
		}
		inst.cancel()
		return inst
	})
}

// f11CancelBeforeArrival: the token is on its way from node `from` to a node
// whose goroutine is started lazily by the first NextAction.  The test is a slow
// subscriber (unbuffered subscription): after LeaveTrace{from} it stops
// receiving, so the token is held in tracer.Send; then the context is cancelled
// and the subscription is drained again.  The token then calls NextAction of
// the target node (this starts the node goroutine and posts the request),
// leaves through its ctx.Done case, and the fresh node goroutine finds both its
// mailbox and ctx.Done ready: if select picks the mailbox it answers on the
// unbuffered reply channel nobody listens to any more.
func f11CancelBeforeArrival(t *testing.T, file, from, fn string) {
	defs := f11Load(t, file)
	stop := make(chan struct{})
	defer close(stop)
	f11Hunt(t, 60, fn, func(k int) *f11Instance {
		inst := f11New(t, defs, 0)
		go func() {
			if err := inst.proc.StartAll(inst.ctx); err != nil {
				t.Error(err)
			}
		}()
		inst.until(t, func(tr tracing.ITrace) bool {
			if l, ok := tr.(LeaveTrace); ok {
				if id, present := l.Node.Id(); present && *id == from {
					return true
				}
			}
			return false
		})
		time.Sleep(2 * time.Millisecond) // token is now blocked in tracer.Send (VisitTrace held by the broadcaster, FlowTrace pending)
		inst.cancel()
		inst.drain(stop)
		return inst
	})
}

func TestF1_1_ParallelGateway(t *testing.T) {
	f11CancelBeforeArrival(t, "testdata/parallel_gateway_fork_join.bpmn", "start", "distributeFlows")
}

func TestF1_1_EventBasedGateway(t *testing.T) {
	f11CancelBeforeArrival(t, "testdata/event_based_gateway.bpmn", "start", "(*eventBasedGateway).run")
}

func TestF1_1_InclusiveGateway(t *testing.T) {
	f11CancelBeforeArrival(t, "testdata/inclusive_gateway.bpmn", "start", "(*inclusiveGateway).trySync")
}
