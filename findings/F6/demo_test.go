package bpmn_test

import (
	"context"
	"testing"
	"time"

	"github.com/olive-io/bpmn/schema"
	"github.com/olive-io/bpmn/v2"
	"github.com/olive-io/bpmn/v2/pkg/tracing"
)

const f6doc = `<?xml version="1.0" encoding="UTF-8"?>
<bpmn:definitions xmlns:bpmn="http://www.omg.org/spec/BPMN/20100524/MODEL" xmlns:xsi="http://www.w3.org/2001/XMLSchema-instance" id="D" targetNamespace="http://bpmn.io/schema/bpmn" expressionLanguage="https://github.com/expr-lang/expr">
  <bpmn:process id="P" isExecutable="true">
    <bpmn:startEvent id="start"><bpmn:outgoing>f0</bpmn:outgoing></bpmn:startEvent>
    <bpmn:task id="task"><bpmn:incoming>f0</bpmn:incoming><bpmn:outgoing>f1</bpmn:outgoing><bpmn:outgoing>f2</bpmn:outgoing></bpmn:task>
    <bpmn:endEvent id="end1"><bpmn:incoming>f1</bpmn:incoming></bpmn:endEvent>
    <bpmn:endEvent id="end2"><bpmn:incoming>f2</bpmn:incoming></bpmn:endEvent>
    <bpmn:sequenceFlow id="f0" sourceRef="start" targetRef="task" />
    <bpmn:sequenceFlow id="f1" sourceRef="task" targetRef="end1"><bpmn:conditionExpression xsi:type="bpmn:tFormalExpression">false</bpmn:conditionExpression></bpmn:sequenceFlow>
    <bpmn:sequenceFlow id="f2" sourceRef="task" targetRef="end2"><bpmn:conditionExpression xsi:type="bpmn:tFormalExpression">true</bpmn:conditionExpression></bpmn:sequenceFlow>
  </bpmn:process>
</bpmn:definitions>`

// A task with two conditional outgoing flows, the first false and the second
// true: the task must be requested once and the instance must cease.
func TestF6FirstConditionalFlowFalse(t *testing.T) {
	defs, err := schema.Parse([]byte(f6doc))
	if err != nil {
		t.Fatalf("parse: %v", err)
	}
	engine := bpmn.NewEngine()
	instance, err := engine.NewProcess(defs)
	if err != nil {
		t.Fatal(err)
	}
	traces := instance.Tracer().Subscribe()
	defer instance.Tracer().Unsubscribe(traces)
	if err := instance.StartAll(context.Background()); err != nil {
		t.Fatal(err)
	}
	requests := 0
	deadline := time.After(5 * time.Second)
	for {
		select {
		case tr := <-traces:
			switch x := tracing.Unwrap(tr).(type) {
			case bpmn.TaskTrace:
				requests++
				if requests > 1 {
					t.Fatalf("task requested %d times", requests)
				}
				x.Do()
			case bpmn.CeaseFlowTrace:
				if requests != 1 {
					t.Fatalf("ceased with %d requests", requests)
				}
				return
			}
		case <-deadline:
			t.Fatalf("instance did not cease within 5s (requests=%d)", requests)
		}
	}
}
