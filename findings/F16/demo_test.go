package bpmn_test

import (
	"context"
	"encoding/xml"
	"testing"
	"time"

	"github.com/olive-io/bpmn/schema"
	"github.com/olive-io/bpmn/v2"
	"github.com/olive-io/bpmn/v2/pkg/event"
	"github.com/olive-io/bpmn/v2/pkg/tracing"
)

// F16 (property C11: "Delivering an event returns in bounded time regardless of which nodes have or have not been
// reached"): a start event that was not triggered and a throw event on a branch that is not taken never start their
// loops; before the repair every event handed to the instance was queued in their mailboxes (capacity 1 and 3), and
// the next delivery blocked for ever.
//
//	start1 -> work -> end1          (the instance is started at start1 only)
//	start2 -> throw -> end2         (start2 is never triggered, throw is never reached)
const f16Doc = `<?xml version="1.0" encoding="UTF-8"?>
<bpmn:definitions xmlns:bpmn="http://www.omg.org/spec/BPMN/20100524/MODEL" id="Definitions_f16" targetNamespace="http://bpmn.io/schema/bpmn">
  <bpmn:process id="f16" isExecutable="true">
    <bpmn:startEvent id="start1"><bpmn:outgoing>f1</bpmn:outgoing></bpmn:startEvent>
    <bpmn:task id="work"><bpmn:incoming>f1</bpmn:incoming><bpmn:outgoing>f2</bpmn:outgoing></bpmn:task>
    <bpmn:endEvent id="end1"><bpmn:incoming>f2</bpmn:incoming></bpmn:endEvent>
    <bpmn:startEvent id="start2"><bpmn:outgoing>g1</bpmn:outgoing><bpmn:signalEventDefinition id="sd" signalRef="go" /></bpmn:startEvent>
    <bpmn:intermediateThrowEvent id="throw"><bpmn:incoming>g1</bpmn:incoming><bpmn:outgoing>g2</bpmn:outgoing></bpmn:intermediateThrowEvent>
    <bpmn:endEvent id="end2"><bpmn:incoming>g2</bpmn:incoming></bpmn:endEvent>
    <bpmn:sequenceFlow id="f1" sourceRef="start1" targetRef="work"/>
    <bpmn:sequenceFlow id="f2" sourceRef="work" targetRef="end1"/>
    <bpmn:sequenceFlow id="g1" sourceRef="start2" targetRef="throw"/>
    <bpmn:sequenceFlow id="g2" sourceRef="throw" targetRef="end2"/>
  </bpmn:process>
  <bpmn:signal id="go" name="go" />
  <bpmn:signal id="other" name="other" />
</bpmn:definitions>`

func TestF16DeliveryNeverBlocksOnUnstartedStartOrThrowEvent(t *testing.T) {
	var defs schema.Definitions
	if err := xml.Unmarshal([]byte(f16Doc), &defs); err != nil {
		t.Fatal(err)
	}
	ctx, cancel := context.WithCancel(context.Background())
	defer cancel()
	ins, err := bpmn.NewEngine().NewProcess(&defs)
	if err != nil {
		t.Fatal(err)
	}
	traces := ins.Tracer().SubscribeChannel(make(chan tracing.ITrace, 256))
	go func() {
		for range traces {
		}
	}()
	var start1 schema.FlowNodeInterface
	for i := range *defs.Processes() {
		p := &(*defs.Processes())[i]
		for j := range *p.StartEvents() {
			if id, ok := (*p.StartEvents())[j].Id(); ok && *id == "start1" {
				start1 = &(*p.StartEvents())[j]
			}
		}
	}
	if start1 == nil {
		t.Fatal("start1 not found")
	}
	if err = ins.StartWith(ctx, start1); err != nil {
		t.Fatal(err)
	}
	for n := 1; n <= 8; n++ {
		done := make(chan struct{})
		go func() {
			defer close(done)
			_, _ = ins.ConsumeEvent(event.NewSignalEvent("other"))
		}()
		select {
		case <-done:
		case <-time.After(3 * time.Second):
			t.Fatalf("delivery #%d of an event nobody waits for did not return within 3s", n)
		}
	}
}
