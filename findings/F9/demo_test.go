package bpmn_test

import (
	"context"
	"fmt"
	"testing"
	"time"

	"github.com/olive-io/bpmn/schema"
	"github.com/olive-io/bpmn/v2"
	"github.com/olive-io/bpmn/v2/pkg/tracing"
)

func f9doc(depth int) string {
	inner := `<bpmn:startEvent id="s%d"><bpmn:outgoing>a%d</bpmn:outgoing></bpmn:startEvent>
      %s
      <bpmn:endEvent id="e%d"><bpmn:incoming>b%d</bpmn:incoming></bpmn:endEvent>
      <bpmn:sequenceFlow id="a%d" sourceRef="s%d" targetRef="%s" />
      <bpmn:sequenceFlow id="b%d" sourceRef="%s" targetRef="e%d" />`
	body := `<bpmn:task id="inner"><bpmn:incoming>a` + fmt.Sprint(depth) + `</bpmn:incoming><bpmn:outgoing>b` + fmt.Sprint(depth) + `</bpmn:outgoing></bpmn:task>`
	node := "inner"
	for d := depth; d >= 1; d-- {
		content := fmt.Sprintf(inner, d, d, body, d, d, d, d, node, d, node, d)
		node = fmt.Sprintf("sub%d", d)
		body = fmt.Sprintf(`<bpmn:subProcess id="%s"><bpmn:incoming>a%d</bpmn:incoming><bpmn:outgoing>b%d</bpmn:outgoing>%s</bpmn:subProcess>`, node, d-1, d-1, content)
	}
	return `<?xml version="1.0" encoding="UTF-8"?>
<bpmn:definitions xmlns:bpmn="http://www.omg.org/spec/BPMN/20100524/MODEL" xmlns:xsi="http://www.w3.org/2001/XMLSchema-instance" id="D" targetNamespace="http://bpmn.io/schema/bpmn">
  <bpmn:process id="P" isExecutable="true">
    <bpmn:startEvent id="s0"><bpmn:outgoing>a0</bpmn:outgoing></bpmn:startEvent>
    ` + body + `
    <bpmn:task id="after"><bpmn:incoming>b0</bpmn:incoming><bpmn:outgoing>c0</bpmn:outgoing></bpmn:task>
    <bpmn:endEvent id="e0"><bpmn:incoming>c0</bpmn:incoming></bpmn:endEvent>
    <bpmn:sequenceFlow id="a0" sourceRef="s0" targetRef="sub1" />
    <bpmn:sequenceFlow id="b0" sourceRef="sub1" targetRef="after" />
    <bpmn:sequenceFlow id="c0" sourceRef="after" targetRef="e0" />
  </bpmn:process>
</bpmn:definitions>`
}

// The parent token must continue past an embedded sub-process exactly once, after
// the inner task was answered, at every nesting depth; the instance then completes.
func TestF9ParentContinuesPastSubProcess(t *testing.T) {
	for depth := 1; depth <= 3; depth++ {
		depth := depth
		t.Run(fmt.Sprintf("depth=%d", depth), func(t *testing.T) {
			defs, err := schema.Parse([]byte(f9doc(depth)))
			if err != nil {
				t.Fatalf("parse: %v", err)
			}
			ctx, cancel := context.WithCancel(context.Background())
			defer cancel()
			instance, err := bpmn.NewEngine().NewProcess(defs)
			if err != nil {
				t.Fatal(err)
			}
			traces := instance.Tracer().Subscribe()
			if err := instance.StartAll(ctx); err != nil {
				t.Fatal(err)
			}
			requests := map[string]int{}
			deadline := time.After(5 * time.Second)
			for {
				select {
				case tr := <-traces:
					switch x := tracing.Unwrap(tr).(type) {
					case bpmn.TaskTrace:
						id, _ := x.GetActivity().Element().Id()
						requests[*id]++
						x.Do()
					case bpmn.CeaseFlowTrace:
						if requests["inner"] != 1 || requests["after"] != 1 {
							t.Fatalf("instance ceased with requests %v", requests)
						}
						return
					}
				case <-deadline:
					t.Fatalf("parent never continued past the sub-process / instance did not cease within 5s (requests %v)", requests)
				}
			}
		})
	}
}
