// F3-9 demo. Target: schema module (package schema_test).
// Copy to /tmp/wt/F3/schema/f3_9_demo_test.go and run:
//   cd /tmp/wt/F3/schema && go test -vet=off -count=1 -v -run 'TestF3_9' .
package schema_test

import (
	"testing"

	"github.com/olive-io/bpmn/schema"
)

// every sequence flow of a built process must connect two elements of the process
func f39Dangling(p *schema.Process) (dangling []string) {
	for i := range *p.SequenceFlows() {
		sf := &(*p.SequenceFlows())[i]
		id, _ := sf.Id()
		if _, found := p.FindBy(schema.ExactId(string(*sf.SourceRef()))); !found {
			dangling = append(dangling, *id+": sourceRef "+string(*sf.SourceRef())+" not in process")
		}
		if _, found := p.FindBy(schema.ExactId(string(*sf.TargetRef()))); !found {
			dangling = append(dangling, *id+": targetRef "+string(*sf.TargetRef())+" not in process")
		}
	}
	return
}

func f39Build(act schema.ActivityInterface) *schema.Process {
	pb := schema.NewProcessBuilder()
	pb.AddActivity(act)
	return pb.Out()
}

func TestF3_9_Control_SubProcess(t *testing.T) {
	sp := schema.DefaultSubProcess()
	sp.SetId(schema.NewStringP("theActivity"))
	p := f39Build(&sp)
	if d := f39Dangling(p); len(d) > 0 {
		t.Fatalf("dangling sequence flows: %v", d)
	}
}

func TestF3_9_AdHocSubProcess(t *testing.T) {
	a := schema.DefaultAdHocSubProcess()
	a.SetId(schema.NewStringP("theActivity"))
	var _ schema.ActivityInterface = &a // accepted by AddActivity at compile time
	p := f39Build(&a)
	_, stored := p.FindBy(schema.ExactId("theActivity"))
	t.Logf("adHocSubProcess stored in process: %v (AdHocSubProcesses=%d)", stored, len(*p.AdHocSubProcesses()))
	if d := f39Dangling(p); len(d) > 0 || !stored {
		t.Fatalf("activity dropped by ProcessBuilder.AddActivity; dangling sequence flows: %v", d)
	}
}

func TestF3_9_Transaction(t *testing.T) {
	a := schema.DefaultTransaction()
	a.SetId(schema.NewStringP("theActivity"))
	var _ schema.ActivityInterface = &a
	p := f39Build(&a)
	_, stored := p.FindBy(schema.ExactId("theActivity"))
	t.Logf("transaction stored in process: %v (Transactions=%d)", stored, len(*p.Transactions()))
	if d := f39Dangling(p); len(d) > 0 || !stored {
		t.Fatalf("activity dropped by ProcessBuilder.AddActivity; dangling sequence flows: %v", d)
	}
}
