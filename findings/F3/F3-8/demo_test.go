// F3-8 demo. Target: repository root (package bpmn_test).
// Copy to /tmp/wt/F3/f3_8_demo_test.go and run:
//   cd /tmp/wt/F3 && go test -vet=off -count=1 -v -run 'TestF3_8' .
package bpmn_test

import (
	"context"
	"encoding/xml"
	"os"
	"strings"
	"testing"
	"time"

	"github.com/olive-io/bpmn/schema"
	"github.com/olive-io/bpmn/v2"
	"github.com/olive-io/bpmn/v2/pkg/tracing"

	_ "github.com/olive-io/bpmn/v2/pkg/expression/expr"
)

func f38Kinds(defs *schema.Definitions) map[string]string {
	out := map[string]string{}
	for i := range *defs.Processes() {
		p := &(*defs.Processes())[i]
		for j := range *p.SequenceFlows() {
			sf := &(*p.SequenceFlows())[j]
			id, _ := sf.Id()
			if ce, present := sf.ConditionExpression(); present {
				switch e := ce.Expression.(type) {
				case *schema.FormalExpression:
					out[*id] = "formal:" + strings.TrimSpace(*e.TextPayload())
				case *schema.Expression:
					out[*id] = "INFORMAL:" + strings.TrimSpace(*e.TextPayload())
				}
			}
		}
	}
	return out
}

// which task does the exclusive gateway of testdata/exclusive_gateway.bpmn route to?
func f38Route(t *testing.T, defs *schema.Definitions) string {
	ctx, cancel := context.WithCancel(context.Background())
	defer cancel()
	tracer := tracing.NewTracer(ctx)
	traces := tracer.SubscribeChannel(make(chan tracing.ITrace, 1024))
	proc, err := bpmn.NewEngine().NewProcess(defs, bpmn.WithTracer(tracer), bpmn.WithContext(ctx))
	if err != nil {
		t.Fatal(err)
	}
	if err = proc.StartAll(ctx); err != nil {
		t.Fatal(err)
	}
	deadline := time.After(5 * time.Second)
	for {
		select {
		case tr := <-traces:
			if tt, ok := tracing.Unwrap(tr).(bpmn.TaskTrace); ok {
				id, _ := tt.GetActivity().Element().Id()
				go func() {
					for range traces {
					}
				}()
				return *id
			}
		case <-deadline:
			t.Fatal("no task reached")
		}
	}
}

func TestF3_8_RoundTripLosesFormalExpressions(t *testing.T) {
	src, err := os.ReadFile("testdata/exclusive_gateway.bpmn")
	if err != nil {
		t.Fatal(err)
	}
	var orig schema.Definitions
	if err = xml.Unmarshal(src, &orig); err != nil {
		t.Fatal(err)
	}
	out, err := xml.MarshalIndent(&orig, "", " ")
	if err != nil {
		t.Fatal(err)
	}
	s := string(out)
	t.Logf("marshalled: uses xsi:type=%v, declares xmlns:xsi=%v", strings.Contains(s, "xsi:type="), strings.Contains(s, "xmlns:xsi"))
	for _, line := range strings.Split(s, "\n") {
		if strings.Contains(line, "definitions ") || strings.Contains(line, "conditionExpression") {
			t.Logf("  %s", strings.TrimSpace(line))
		}
	}
	var again schema.Definitions
	if err = xml.Unmarshal(out, &again); err != nil {
		t.Fatal(err)
	}
	before, after := f38Kinds(&orig), f38Kinds(&again)
	t.Logf("conditions before: %v", before)
	t.Logf("conditions after : %v", after)
	for id, k := range before {
		if after[id] != k {
			t.Errorf("sequence flow %s: condition was %q, after marshal+unmarshal it is %q", id, k, after[id])
		}
	}

	// behavioural consequence: flow to task1 has condition `false`, flow to task2 `true`
	r1 := f38Route(t, &orig)
	r2 := f38Route(t, &again)
	t.Logf("exclusive gateway routes to %s before, %s after the round trip", r1, r2)
	if r1 != r2 {
		t.Errorf("exclusive gateway routed to %s with the original model but to %s with the round-tripped model", r1, r2)
	}
}
