// F3-2 demo. Target: repository root (package bpmn_test).
// Copy to /tmp/wt/F3/f3_2_demo_test.go and run:
//   cd /tmp/wt/F3 && go test -vet=off -count=1 -run 'TestF3_2' .
package bpmn_test

import (
	"context"
	"encoding/xml"
	"runtime"
	"strings"
	"sync"
	"testing"
	"time"

	"github.com/olive-io/bpmn/schema"
	"github.com/olive-io/bpmn/v2"
	"github.com/olive-io/bpmn/v2/pkg/tracing"
)

const f32XML = `<?xml version="1.0" encoding="UTF-8"?>
<bpmn:definitions xmlns:bpmn="http://www.omg.org/spec/BPMN/20100524/MODEL" id="defs"
  targetNamespace="http://bpmn.io/schema/bpmn">
  <bpmn:process id="p" isExecutable="true">
    <bpmn:startEvent id="start"><bpmn:outgoing>f0</bpmn:outgoing></bpmn:startEvent>
    <bpmn:task id="task"><bpmn:incoming>f0</bpmn:incoming><bpmn:outgoing>f1</bpmn:outgoing></bpmn:task>
    <bpmn:endEvent id="end"><bpmn:incoming>f1</bpmn:incoming></bpmn:endEvent>
    <bpmn:sequenceFlow id="f0" sourceRef="start" targetRef="task"/>
    <bpmn:sequenceFlow id="f1" sourceRef="task" targetRef="end"/>
  </bpmn:process>
</bpmn:definitions>`

// f32TaskTrace starts a fresh one-task process and returns the TaskTrace of
// its single task (bounded wait).
func f32TaskTrace(t *testing.T) (bpmn.TaskTrace, *bpmn.Process, context.CancelFunc) {
	var defs schema.Definitions
	if err := xml.Unmarshal([]byte(f32XML), &defs); err != nil {
		t.Fatal(err)
	}
	ctx, cancel := context.WithCancel(context.Background())
	tracer := tracing.NewTracer(ctx)
	traces := tracer.SubscribeChannel(make(chan tracing.ITrace, 256))
	inst, err := bpmn.NewEngine().NewProcess(&defs, bpmn.WithTracer(tracer), bpmn.WithContext(ctx))
	if err != nil {
		t.Fatal(err)
	}
	if err = inst.StartAll(ctx); err != nil {
		t.Fatal(err)
	}
	deadline := time.After(10 * time.Second)
	for {
		select {
		case tr := <-traces:
			if tt, ok := tracing.Unwrap(tr).(bpmn.TaskTrace); ok {
				go func() {
					for range traces {
					}
				}()
				return tt, inst, cancel
			}
		case <-deadline:
			t.Fatal("task never reached")
		}
	}
}

// Property: further or concurrent calls of TaskTrace.Do on one task request
// return without blocking. N goroutines call Do on the same trace at once.
func TestF3_2_ConcurrentDoBlocks(t *testing.T) {
	const iterations = 200
	const callers = 4
	for it := 1; it <= iterations; it++ {
		tt, inst, cancel := f32TaskTrace(t)

		start := make(chan struct{})
		var wg sync.WaitGroup
		for i := 0; i < callers; i++ {
			wg.Add(1)
			go func() {
				defer wg.Done()
				<-start
				tt.Do()
			}()
		}
		close(start)
		all := make(chan struct{})
		go func() { wg.Wait(); close(all) }()

		select {
		case <-all:
		case <-time.After(2 * time.Second):
			// the process itself did complete (first answer was taken) ...
			wctx, wcancel := context.WithTimeout(context.Background(), 2*time.Second)
			completed := inst.WaitUntilComplete(wctx)
			wcancel()
			buf := make([]byte, 1<<20)
			n := runtime.Stack(buf, true)
			blocked := 0
			sample := ""
			for _, g := range strings.Split(string(buf[:n]), "\n\n") {
				if strings.Contains(g, "(*taskTrace).Do") && strings.Contains(g, "[chan send") {
					blocked++
					sample = g
				}
			}
			cancel()
			t.Fatalf("iteration %d/%d: %d of %d concurrent TaskTrace.Do calls still blocked after 2s (process completed=%v); one of them:\n%s",
				it, iterations, blocked, callers, completed, sample)
		}
		cancel()
	}
	t.Logf("no blocked Do call in %d iterations", iterations)
}
