// F3-5 demo. Target: repository root (package bpmn_test).
// Copy to /tmp/wt/F3/f3_5_demo_test.go and run:
//   cd /tmp/wt/F3 && go test -vet=off -count=1 -v -run 'TestF3_5' .
//
//   start -> F (inclusive fork, two unconditional branches) -> tA -> J (inclusive join) -> end
//                                                          -> tB -> J
// Token A ends "elsewhere" (error handler ExitMode / RetryMode exhausted): its
// goroutine returns without TerminationTrace. Expectation: once token B reaches J,
// J releases (no live token can still arrive), `end` is visited and the instance
// completes.
package bpmn_test

import (
	"context"
	"encoding/xml"
	"errors"
	"runtime"
	"strings"
	"sync"
	"testing"
	"time"

	"github.com/olive-io/bpmn/schema"
	"github.com/olive-io/bpmn/v2"
	"github.com/olive-io/bpmn/v2/pkg/tracing"
)

const f35XML = `<?xml version="1.0" encoding="UTF-8"?>
<bpmn:definitions xmlns:bpmn="http://www.omg.org/spec/BPMN/20100524/MODEL"
  xmlns:xsi="http://www.w3.org/2001/XMLSchema-instance" id="defs"
  targetNamespace="http://bpmn.io/schema/bpmn"
  expressionLanguage="https://github.com/expr-lang/expr">
  <bpmn:process id="p" isExecutable="true">
    <bpmn:startEvent id="start"><bpmn:outgoing>s0</bpmn:outgoing></bpmn:startEvent>
    <bpmn:sequenceFlow id="s0" sourceRef="start" targetRef="F"/>
    <bpmn:inclusiveGateway id="F">
      <bpmn:incoming>s0</bpmn:incoming><bpmn:outgoing>fA</bpmn:outgoing><bpmn:outgoing>fB</bpmn:outgoing>
    </bpmn:inclusiveGateway>
    <bpmn:sequenceFlow id="fA" sourceRef="F" targetRef="tA"/>
    <bpmn:sequenceFlow id="fB" sourceRef="F" targetRef="tB"/>
    <bpmn:task id="tA"><bpmn:incoming>fA</bpmn:incoming><bpmn:outgoing>aJ</bpmn:outgoing></bpmn:task>
    <bpmn:task id="tB"><bpmn:incoming>fB</bpmn:incoming><bpmn:outgoing>bJ</bpmn:outgoing></bpmn:task>
    <bpmn:sequenceFlow id="aJ" sourceRef="tA" targetRef="J"/>
    <bpmn:sequenceFlow id="bJ" sourceRef="tB" targetRef="J"/>
    <bpmn:inclusiveGateway id="J">
      <bpmn:incoming>aJ</bpmn:incoming><bpmn:incoming>bJ</bpmn:incoming>
      <bpmn:outgoing>jEnd</bpmn:outgoing>
    </bpmn:inclusiveGateway>
    <bpmn:sequenceFlow id="jEnd" sourceRef="J" targetRef="end"/>
    <bpmn:endEvent id="end"><bpmn:incoming>jEnd</bpmn:incoming></bpmn:endEvent>
  </bpmn:process>
</bpmn:definitions>`

// answerA is applied to task tA's trace; it returns after the answer was given.
func f35Run(t *testing.T, answerA func(tt bpmn.TaskTrace)) (endVisited, completed bool, stacks string) {
	return f35RunXML(t, f35XML, answerA)
}

func f35RunXML(t *testing.T, src string, answerA func(tt bpmn.TaskTrace)) (endVisited, completed bool, stacks string) {
	var defs schema.Definitions
	if err := xml.Unmarshal([]byte(src), &defs); err != nil {
		t.Fatal(err)
	}
	ctx, cancel := context.WithCancel(context.Background())
	defer cancel()
	tracer := tracing.NewTracer(ctx)
	traces := tracer.SubscribeChannel(make(chan tracing.ITrace, 4096))
	proc, err := bpmn.NewEngine().NewProcess(&defs, bpmn.WithTracer(tracer), bpmn.WithContext(ctx))
	if err != nil {
		t.Fatal(err)
	}
	if err = proc.StartAll(ctx); err != nil {
		t.Fatal(err)
	}
	tasks := make(chan bpmn.TaskTrace, 8)
	visitJ := make(chan struct{}, 8)
	visitEnd := make(chan struct{}, 8)
	var mu sync.Mutex
	var errs []string
	go func() {
		for tr := range traces {
			switch tt := tracing.Unwrap(tr).(type) {
			case bpmn.TaskTrace:
				tasks <- tt
			case bpmn.VisitTrace:
				switch id, _ := tt.Node.Id(); *id {
				case "J":
					visitJ <- struct{}{}
				case "end":
					visitEnd <- struct{}{}
				}
			case bpmn.ErrorTrace:
				mu.Lock()
				errs = append(errs, tt.Error.Error())
				mu.Unlock()
			}
		}
	}()
	byId := map[string]bpmn.TaskTrace{}
	for len(byId) < 2 {
		select {
		case tt := <-tasks:
			id, _ := tt.GetActivity().Element().Id()
			byId[*id] = tt
		case <-time.After(5 * time.Second):
			t.Fatalf("only %d of 2 tasks became active", len(byId))
		}
	}

	answerA(byId["tA"])
	// give token A time to act on the answer (exit, or travel to J)
	time.Sleep(300 * time.Millisecond)
	byId["tB"].Do()
	select {
	case <-visitJ: // (in the control run this may be A's or B's visit; both are fine)
	case <-time.After(5 * time.Second):
		t.Fatal("token B never reached J")
	}

	select {
	case <-visitEnd:
		endVisited = true
	case <-time.After(3 * time.Second):
	}
	wctx, wcancel := context.WithTimeout(context.Background(), 2*time.Second)
	defer wcancel()
	completed = proc.WaitUntilComplete(wctx)
	if !completed {
		buf := make([]byte, 1<<20)
		n := runtime.Stack(buf, true)
		for _, gr := range strings.Split(string(buf[:n]), "\n\n") {
			if strings.Contains(gr, "(*flow).Start.func1") {
				stacks += gr + "\n\n"
			}
		}
	}
	mu.Lock()
	t.Logf("error traces: %v", errs)
	mu.Unlock()
	return
}

func TestF3_5_Control_NormalAnswer(t *testing.T) {
	end, completed, _ := f35Run(t, func(tt bpmn.TaskTrace) { tt.Do() })
	if !end || !completed {
		t.Fatalf("control: endVisited=%v completed=%v", end, completed)
	}
}

func f35Check(t *testing.T, mode string, end, completed bool, stacks string) {
	if !end || !completed {
		t.Fatalf("%s: token A ended silently, token B arrived at the inclusive join, but the join never released: "+
			"endVisited=%v completed=%v; remaining token goroutine(s) (A's is gone, B is parked at J):\n%s",
			mode, end, completed, stacks)
	}
}

func TestF3_5_ExitMode(t *testing.T) {
	end, completed, stacks := f35Run(t, func(tt bpmn.TaskTrace) {
		ch := make(chan bpmn.ErrHandler, 1)
		ch <- bpmn.ErrHandler{Mode: bpmn.ExitMode}
		tt.Do(bpmn.DoWithErrHandle(errors.New("boom"), ch))
	})
	f35Check(t, "ExitMode", end, completed, stacks)
}

func TestF3_5_RetryExhausted(t *testing.T) {
	end, completed, stacks := f35Run(t, func(tt bpmn.TaskTrace) {
		ch := make(chan bpmn.ErrHandler, 1)
		ch <- bpmn.ErrHandler{Mode: bpmn.RetryMode, Retries: 0}
		tt.Do(bpmn.DoWithErrHandle(errors.New("boom"), ch))
	})
	f35Check(t, "RetryMode(0)", end, completed, stacks)
}

// Variant: token A ends at a node without outgoing sequence flows (task tA is a
// dead end, J has the single incoming flow bJ): flow.go "nowhere to flow, abort"
// also returns without TerminationTrace.
func TestF3_5_NoOutgoingFlows(t *testing.T) {
	src := f35XML
	for _, cut := range []string{
		`<bpmn:outgoing>aJ</bpmn:outgoing>`,
		`<bpmn:sequenceFlow id="aJ" sourceRef="tA" targetRef="J"/>`,
		`<bpmn:incoming>aJ</bpmn:incoming>`,
	} {
		if !strings.Contains(src, cut) {
			t.Fatalf("fixture edit failed: %s", cut)
		}
		src = strings.Replace(src, cut, "", 1)
	}
	end, completed, stacks := f35RunXML(t, src, func(tt bpmn.TaskTrace) { tt.Do() })
	f35Check(t, "dead-end task", end, completed, stacks)
}
