// F3-7 demo. Target: schema module (package schema_test).
// Copy to /tmp/wt/F3/schema/f3_7_demo_test.go and run:
//   cd /tmp/wt/F3/schema && go test -vet=off -count=1 -v -run 'TestF3_7' .
package schema_test

import (
	"fmt"
	"testing"

	"github.com/olive-io/bpmn/schema"
)

func f37NoPanic(t *testing.T, what string, f func()) {
	t.Helper()
	defer func() {
		if r := recover(); r != nil {
			t.Errorf("%s panicked: %v", what, r)
		}
	}()
	f()
}

func TestF3_7_NewValueUnsigned(t *testing.T) {
	for _, v := range []any{uint(3), uint8(3), uint16(3), uint32(3), uint64(3)} {
		v := v
		f37NoPanic(t, fmt.Sprintf("schema.NewValue(%T(3))", v), func() {
			val := schema.NewValue(v)
			if val.ItemType != schema.ItemTypeInteger || val.ItemValue != "3" {
				t.Errorf("NewValue(%T(3)) = %+v, want integer 3", v, *val)
			}
		})
	}
}

func TestF3_7_ValueFromNilArray(t *testing.T) {
	f37NoPanic(t, "(&Value{ItemType: array}).ValueFrom(nil)", func() {
		(&schema.Value{ItemType: schema.ItemTypeArray}).ValueFrom(nil)
	})
}

func TestF3_7_ValueFromNilObject(t *testing.T) {
	f37NoPanic(t, "(&Value{ItemType: object}).ValueFrom(nil)", func() {
		(&schema.Value{ItemType: schema.ItemTypeObject}).ValueFrom(nil)
	})
}
