// F3-10 demo. Target: repository root (package bpmn_test) - imports both
// github.com/olive-io/bpmn/v2/pkg/id and github.com/olive-io/bpmn/schema.
// Copy to /tmp/wt/F3/f3_10_demo_test.go and run:
//   cd /tmp/wt/F3 && go test -vet=off -count=1 -v -run 'TestF3_10' .
package bpmn_test

import (
	"runtime"
	"sync"
	"testing"

	"github.com/olive-io/bpmn/schema"
	"github.com/olive-io/bpmn/v2/pkg/id"
)

// runs f `perWorker` times on `workers` goroutines released together, returns
// (#values, #values that had been produced before).
func f310Collect(workers, perWorker int, f func() string) (total, dups int, example string) {
	start := make(chan struct{})
	res := make([][]string, workers)
	var wg sync.WaitGroup
	for w := 0; w < workers; w++ {
		wg.Add(1)
		go func(w int) {
			defer wg.Done()
			out := make([]string, 0, perWorker)
			<-start
			for i := 0; i < perWorker; i++ {
				out = append(out, f())
			}
			res[w] = out
		}(w)
	}
	close(start)
	wg.Wait()
	seen := make(map[string]struct{}, workers*perWorker)
	for _, out := range res {
		for _, v := range out {
			total++
			if _, ok := seen[v]; ok {
				dups++
				example = v
			}
			seen[v] = struct{}{}
		}
	}
	return
}

// Generators created concurrently (e.g. several processes instantiated at the
// same time when the sno generator is unavailable) must not issue equal ids.
func TestF3_10_FallbackGenerator_Concurrent(t *testing.T) {
	workers := runtime.GOMAXPROCS(0)
	total, dups, ex := f310Collect(workers, 100000, func() string {
		return id.NewFallbackGenerator().New().String() // first id of a fresh generator
	})
	t.Logf("%d generators created on %d goroutines: %d issued a first id equal to that of another generator (e.g. %q)", total, workers, dups, ex)
	if dups > 0 {
		t.Errorf("%d of %d concurrently created fallback generators share their prefix and therefore issue identical id sequences, e.g. %q", dups, total, ex)
	}
}

func TestF3_10_FallbackGenerator_Sequential(t *testing.T) {
	total, dups, ex := f310Collect(1, 1000000, func() string {
		return id.NewFallbackGenerator().New().String()
	})
	t.Logf("sequential tight loop: %d generators, %d duplicates %q", total, dups, ex)
	if dups > 0 {
		t.Errorf("%d duplicate ids from generators created in a sequential tight loop", dups)
	}
}

func TestF3_10_RandBytes_Concurrent(t *testing.T) {
	workers := runtime.GOMAXPROCS(0)
	total, dups, ex := f310Collect(workers, 50000, func() string { return string(schema.RandBytes(7)) })
	t.Logf("%d RandBytes(7) values on %d goroutines: %d repeats (e.g. %q); 7 alphanumeric chars allow >1e12 values", total, workers, dups, ex)
	if dups > 0 {
		t.Errorf("schema.RandBytes(7) returned %d repeated values out of %d when called concurrently (e.g. %q)", dups, total, ex)
	}
}

func TestF3_10_RandBytes_SequentialTightLoop(t *testing.T) {
	total, dups, ex := f310Collect(1, 300000, func() string { return string(schema.RandBytes(7)) })
	t.Logf("sequential tight loop: %d RandBytes(7) values, %d repeats %q", total, dups, ex)
	if dups > 0 {
		t.Errorf("schema.RandBytes(7) returned %d repeated values out of %d in a sequential tight loop (e.g. %q)", dups, total, ex)
	}
}
