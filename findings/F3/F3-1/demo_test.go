// F3-1 demo. Target: repository root (package bpmn_test).
// Copy to /tmp/wt/F3/f3_1_demo_test.go and run:
//   cd /tmp/wt/F3 && go test -vet=off -count=1 -run 'TestF3_1' .
package bpmn_test

import (
	"context"
	"encoding/xml"
	"runtime"
	"strings"
	"testing"
	"time"

	"github.com/olive-io/bpmn/schema"
	"github.com/olive-io/bpmn/v2"
	"github.com/olive-io/bpmn/v2/pkg/event"
	"github.com/olive-io/bpmn/v2/pkg/tracing"

	_ "github.com/olive-io/bpmn/v2/pkg/expression/expr"
)

const f31XML = `<?xml version="1.0" encoding="UTF-8"?>
<bpmn:definitions xmlns:bpmn="http://www.omg.org/spec/BPMN/20100524/MODEL"
  xmlns:xsi="http://www.w3.org/2001/XMLSchema-instance" id="defs"
  targetNamespace="http://bpmn.io/schema/bpmn"
  expressionLanguage="https://github.com/expr-lang/expr">
  <bpmn:process id="p" isExecutable="true">
    <bpmn:startEvent id="start"><bpmn:outgoing>f0</bpmn:outgoing></bpmn:startEvent>
    <bpmn:exclusiveGateway id="xor">
      <bpmn:incoming>f0</bpmn:incoming>
      <bpmn:outgoing>fTaken</bpmn:outgoing>
      <bpmn:outgoing>fNotTaken</bpmn:outgoing>
    </bpmn:exclusiveGateway>
    <bpmn:sequenceFlow id="f0" sourceRef="start" targetRef="xor"/>
    <bpmn:sequenceFlow id="fTaken" sourceRef="xor" targetRef="task">
      <bpmn:conditionExpression xsi:type="bpmn:tFormalExpression">true</bpmn:conditionExpression>
    </bpmn:sequenceFlow>
    <bpmn:sequenceFlow id="fNotTaken" sourceRef="xor" targetRef="signalCatch">
      <bpmn:conditionExpression xsi:type="bpmn:tFormalExpression">false</bpmn:conditionExpression>
    </bpmn:sequenceFlow>
    <bpmn:task id="task">
      <bpmn:incoming>fTaken</bpmn:incoming>
      <bpmn:outgoing>f1</bpmn:outgoing>
    </bpmn:task>
    <bpmn:intermediateCatchEvent id="signalCatch">
      <bpmn:incoming>fNotTaken</bpmn:incoming>
      <bpmn:outgoing>f2</bpmn:outgoing>
      <bpmn:signalEventDefinition id="sig1" signalRef="global_sig1"/>
    </bpmn:intermediateCatchEvent>
    <bpmn:endEvent id="end">
      <bpmn:incoming>f1</bpmn:incoming>
      <bpmn:incoming>f2</bpmn:incoming>
    </bpmn:endEvent>
    <bpmn:sequenceFlow id="f1" sourceRef="task" targetRef="end"/>
    <bpmn:sequenceFlow id="f2" sourceRef="signalCatch" targetRef="end"/>
  </bpmn:process>
  <bpmn:signal id="global_sig1" name="global_sig1"/>
</bpmn:definitions>`

// The process takes the branch xor->task; the branch xor->signalCatch is
// never taken, so signalCatch's run goroutine is never started. Every signal
// delivered to the (live) process is nevertheless posted into signalCatch's
// mailbox (cap 2*1+1 = 3). Expectation: ConsumeEvent on a process returns in
// bounded time for every delivery.
func TestF3_1_ConsumeEventBlocksOnNeverReachedCatchEvent(t *testing.T) {
	var defs schema.Definitions
	if err := xml.Unmarshal([]byte(f31XML), &defs); err != nil {
		t.Fatal(err)
	}
	tracer := tracing.NewTracer(context.Background())
	traces := tracer.SubscribeChannel(make(chan tracing.ITrace, 256))
	inst, err := bpmn.NewEngine().NewProcess(&defs, bpmn.WithTracer(tracer))
	if err != nil {
		t.Fatal(err)
	}
	if err = inst.StartAll(context.Background()); err != nil {
		t.Fatal(err)
	}

	// wait (bounded) until the token sits in the task: the untaken branch is
	// then definitely not going to be visited.
	deadline := time.After(10 * time.Second)
	var task bpmn.TaskTrace
wait:
	for {
		select {
		case tr := <-traces:
			switch tt := tracing.Unwrap(tr).(type) {
			case bpmn.TaskTrace:
				task = tt
				break wait
			case bpmn.ActiveListeningTrace:
				t.Fatalf("catch event unexpectedly reached")
			case bpmn.ErrorTrace:
				t.Fatalf("error trace: %v", tt.Error)
			}
		case <-deadline:
			t.Fatal("task never reached")
		}
	}
	_ = task
	go func() { // keep draining so the tracer is never the reason for blocking
		for range traces {
		}
	}()

	for i := 1; i <= 10; i++ {
		done := make(chan struct{})
		go func() {
			_, _ = inst.ConsumeEvent(event.NewSignalEvent("global_sig1"))
			close(done)
		}()
		select {
		case <-done:
			t.Logf("delivery %d returned", i)
		case <-time.After(2 * time.Second):
			buf := make([]byte, 1<<20)
			n := runtime.Stack(buf, true)
			where := "?"
			for _, g := range strings.Split(string(buf[:n]), "\n\n") {
				if strings.Contains(g, "(*catchEvent).ConsumeEvent") {
					where = g
				}
			}
			t.Fatalf("Process.ConsumeEvent delivery #%d did not return within 2s; blocked goroutine:\n%s", i, where)
		}
	}
}
