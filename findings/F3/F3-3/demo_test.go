// F3-3 demo. Target: repository root (package bpmn_test).
// Copy to /tmp/wt/F3/f3_3_demo_test.go and run:
//   cd /tmp/wt/F3 && go test -vet=off -race -count=1 -run 'TestF3_3' .
// (also fails without -race)
package bpmn_test

import (
	"context"
	"encoding/xml"
	"os"
	"runtime"
	"strings"
	"sync"
	"testing"
	"time"

	"github.com/olive-io/bpmn/schema"
	"github.com/olive-io/bpmn/v2"
	"github.com/olive-io/bpmn/v2/pkg/event"
	"github.com/olive-io/bpmn/v2/pkg/tracing"
)

// Both alternatives of the event-based gateway in testdata/event_based_gateway.bpmn
// get their event at (nearly) the same moment. Expectation: exactly one
// alternative wins, the other token is withdrawn, the instance completes.
func TestF3_3_EventBasedGatewayConcurrentEvents(t *testing.T) {
	src, err := os.ReadFile("testdata/event_based_gateway.bpmn")
	if err != nil {
		t.Fatal(err)
	}
	const iterations = 300
	for it := 1; it <= iterations; it++ {
		var defs schema.Definitions
		if err = xml.Unmarshal(src, &defs); err != nil {
			t.Fatal(err)
		}
		ctx, cancel := context.WithCancel(context.Background())
		tracer := tracing.NewTracer(ctx)
		traces := tracer.SubscribeChannel(make(chan tracing.ITrace, 1024))
		proc, err := bpmn.NewEngine().NewProcess(&defs, bpmn.WithTracer(tracer), bpmn.WithContext(ctx))
		if err != nil {
			t.Fatal(err)
		}
		if err = proc.StartAll(ctx); err != nil {
			t.Fatal(err)
		}

		listening := make(chan string, 8)
		ceased := make(chan struct{})
		var mu sync.Mutex
		visited := map[string]int{}
		var log []string
		go func() { // single trace consumer, always draining
			for tr := range traces {
				switch tt := tracing.Unwrap(tr).(type) {
				case bpmn.ActiveListeningTrace:
					id, _ := tt.Node.Id()
					listening <- *id
				case bpmn.VisitTrace:
					id, _ := tt.Node.Id()
					mu.Lock()
					visited[*id]++
					mu.Unlock()
				case bpmn.TaskTrace:
					tt.Do()
				case bpmn.DeterminationMadeTrace:
					mu.Lock()
					log = append(log, "DeterminationMade")
					mu.Unlock()
				case bpmn.CompletionTrace:
					id, _ := tt.Node.Id()
					mu.Lock()
					log = append(log, "Completion("+*id+")")
					mu.Unlock()
				case bpmn.CeaseFlowTrace:
					close(ceased)
				}
			}
		}()

		for i := 0; i < 2; i++ {
			select {
			case <-listening:
			case <-time.After(5 * time.Second):
				t.Fatalf("iteration %d: catch events never started listening", it)
			}
		}

		start := make(chan struct{})
		var wg sync.WaitGroup
		for _, ev := range []event.IEvent{event.NewSignalEvent("Sig1"), event.NewMessageEvent("Msg1", nil)} {
			wg.Add(1)
			go func(ev event.IEvent) {
				defer wg.Done()
				<-start
				_, _ = proc.ConsumeEvent(ev)
			}(ev)
		}
		close(start)
		wg.Wait()

		select {
		case <-ceased:
			mu.Lock()
			if visited["task1"]+visited["task2"] != 1 {
				t.Errorf("iteration %d: expected exactly one of task1/task2, got %v", it, visited)
			}
			mu.Unlock()
		case <-time.After(3 * time.Second):
			buf := make([]byte, 1<<20)
			n := runtime.Stack(buf, true)
			stuck := ""
			for _, g := range strings.Split(string(buf[:n]), "\n\n") {
				if strings.Contains(g, "gateway_event_based.go") && strings.Contains(g, "[chan send") {
					stuck = g
				}
			}
			mu.Lock()
			defer mu.Unlock()
			cancel()
			t.Fatalf("iteration %d/%d: instance did not complete within 3s after both events were delivered concurrently; visited=%v traces=%v\nstuck winner token:\n%s",
				it, iterations, visited, log, stuck)
		}
		cancel()
	}
	t.Logf("all %d iterations completed", iterations)
}
