// F3-4 demo. Target: repository root (package bpmn_test).
// Copy to /tmp/wt/F3/f3_4_demo_test.go and run:
//   cd /tmp/wt/F3 && go test -vet=off -count=1 -v -run 'TestF3_4' .
//
// Process:
//   start -> P (parallel fork) -> F (inclusive fork) -> tA -> J
//                                                    -> tB -> J
//                              -> tC ----------------------> J (inclusive join) -[cond]-> end
//
// The tokens through tA/tB form one cohort of the join's flow tracker (origin F);
// the token through tC has origin P, so J synchronises on the two F tokens alone
// and probes its outgoing condition. The condition is written in a test-only
// expression language (registered through the public expression.RegisterEngine)
// whose evaluation can be held open by the test: this only widens the window
// "gw.synchronized == true" deterministically, the library code is unmodified.
package bpmn_test

import (
	"context"
	"encoding/xml"
	"runtime"
	"strings"
	"sync"
	"testing"
	"time"

	"github.com/olive-io/bpmn/schema"
	"github.com/olive-io/bpmn/v2"
	"github.com/olive-io/bpmn/v2/pkg/data"
	"github.com/olive-io/bpmn/v2/pkg/expression"
	"github.com/olive-io/bpmn/v2/pkg/tracing"
)

const f34XML = `<?xml version="1.0" encoding="UTF-8"?>
<bpmn:definitions xmlns:bpmn="http://www.omg.org/spec/BPMN/20100524/MODEL"
  xmlns:xsi="http://www.w3.org/2001/XMLSchema-instance" id="defs"
  targetNamespace="http://bpmn.io/schema/bpmn"
  expressionLanguage="https://github.com/expr-lang/expr">
  <bpmn:process id="p" isExecutable="true">
    <bpmn:startEvent id="start"><bpmn:outgoing>s0</bpmn:outgoing></bpmn:startEvent>
    <bpmn:sequenceFlow id="s0" sourceRef="start" targetRef="P"/>
    <bpmn:parallelGateway id="P">
      <bpmn:incoming>s0</bpmn:incoming><bpmn:outgoing>pF</bpmn:outgoing><bpmn:outgoing>pC</bpmn:outgoing>
    </bpmn:parallelGateway>
    <bpmn:sequenceFlow id="pF" sourceRef="P" targetRef="F"/>
    <bpmn:sequenceFlow id="pC" sourceRef="P" targetRef="tC"/>
    <bpmn:inclusiveGateway id="F">
      <bpmn:incoming>pF</bpmn:incoming><bpmn:outgoing>fA</bpmn:outgoing><bpmn:outgoing>fB</bpmn:outgoing>
    </bpmn:inclusiveGateway>
    <bpmn:sequenceFlow id="fA" sourceRef="F" targetRef="tA"/>
    <bpmn:sequenceFlow id="fB" sourceRef="F" targetRef="tB"/>
    <bpmn:task id="tA"><bpmn:incoming>fA</bpmn:incoming><bpmn:outgoing>aJ</bpmn:outgoing></bpmn:task>
    <bpmn:task id="tB"><bpmn:incoming>fB</bpmn:incoming><bpmn:outgoing>bJ</bpmn:outgoing></bpmn:task>
    <bpmn:task id="tC"><bpmn:incoming>pC</bpmn:incoming><bpmn:outgoing>cJ</bpmn:outgoing></bpmn:task>
    <bpmn:sequenceFlow id="aJ" sourceRef="tA" targetRef="J"/>
    <bpmn:sequenceFlow id="bJ" sourceRef="tB" targetRef="J"/>
    <bpmn:sequenceFlow id="cJ" sourceRef="tC" targetRef="J"/>
    <bpmn:inclusiveGateway id="J">
      <bpmn:incoming>aJ</bpmn:incoming><bpmn:incoming>bJ</bpmn:incoming><bpmn:incoming>cJ</bpmn:incoming>
      <bpmn:outgoing>jEnd</bpmn:outgoing>
    </bpmn:inclusiveGateway>
    <bpmn:sequenceFlow id="jEnd" sourceRef="J" targetRef="end">
      <bpmn:conditionExpression xsi:type="bpmn:tFormalExpression" language="test://f34-gated">gate</bpmn:conditionExpression>
    </bpmn:sequenceFlow>
    <bpmn:endEvent id="end"><bpmn:incoming>jEnd</bpmn:incoming></bpmn:endEvent>
  </bpmn:process>
</bpmn:definitions>`

type f34Gate struct {
	entered chan struct{}
	release chan struct{}
}

var f34gate struct {
	sync.Mutex
	g *f34Gate
}

type f34Engine struct{}

func (f34Engine) CompileExpression(source string) (expression.ICompiledExpression, error) {
	return source, nil
}
func (f34Engine) EvaluateExpression(e expression.ICompiledExpression, _ interface{}) (expression.IResult, error) {
	f34gate.Lock()
	g := f34gate.g
	f34gate.Unlock()
	select {
	case g.entered <- struct{}{}:
	default:
	}
	select {
	case <-g.release:
	case <-time.After(15 * time.Second):
	}
	return true, nil
}
func (f34Engine) SetItemAwareLocator(string, data.IItemAwareLocator) {}

func f34Run(t *testing.T, thirdTokenDuringProbe bool) (completed bool, endVisits int, stacks string) {
	expression.RegisterEngine("test://f34-gated", func(ctx context.Context) expression.IEngine { return f34Engine{} })
	g := &f34Gate{entered: make(chan struct{}, 4), release: make(chan struct{})}
	f34gate.Lock()
	f34gate.g = g
	f34gate.Unlock()

	var defs schema.Definitions
	if err := xml.Unmarshal([]byte(f34XML), &defs); err != nil {
		t.Fatal(err)
	}
	ctx, cancel := context.WithCancel(context.Background())
	defer cancel()
	tracer := tracing.NewTracer(ctx)
	traces := tracer.SubscribeChannel(make(chan tracing.ITrace, 4096))
	proc, err := bpmn.NewEngine().NewProcess(&defs, bpmn.WithTracer(tracer), bpmn.WithContext(ctx))
	if err != nil {
		t.Fatal(err)
	}
	if err = proc.StartAll(ctx); err != nil {
		t.Fatal(err)
	}

	tasks := make(chan bpmn.TaskTrace, 8)
	visitJ := make(chan struct{}, 8)
	var mu sync.Mutex
	ends := 0
	go func() {
		for tr := range traces {
			switch tt := tracing.Unwrap(tr).(type) {
			case bpmn.TaskTrace:
				tasks <- tt
			case bpmn.VisitTrace:
				if id, _ := tt.Node.Id(); *id == "J" {
					visitJ <- struct{}{}
				} else if *id == "end" {
					mu.Lock()
					ends++
					mu.Unlock()
				}
			case bpmn.ErrorTrace:
				t.Errorf("error trace: %v", tt.Error)
			}
		}
	}()
	wait := func(what string, ch <-chan struct{}) {
		select {
		case <-ch:
		case <-time.After(5 * time.Second):
			t.Fatalf("timeout waiting for %s", what)
		}
	}

	byId := map[string]bpmn.TaskTrace{}
	for len(byId) < 3 {
		select {
		case tt := <-tasks:
			id, _ := tt.GetActivity().Element().Id()
			byId[*id] = tt
		case <-time.After(5 * time.Second):
			t.Fatalf("only %d of 3 tasks became active", len(byId))
		}
	}

	byId["tA"].Do()
	wait("token A at J", visitJ)
	time.Sleep(100 * time.Millisecond) // let J register the activating token
	byId["tB"].Do()
	wait("token B at J", visitJ)
	wait("J synchronised on A+B and probing its outgoing condition", g.entered)

	if thirdTokenDuringProbe {
		// third token reaches J while J is synchronized (probe still running)
		byId["tC"].Do()
		wait("token C at J", visitJ)
		time.Sleep(300 * time.Millisecond) // J's run loop takes C's request from its mailbox
		close(g.release)
	} else {
		// control: third token reaches J after the probe round is over
		close(g.release)
		time.Sleep(300 * time.Millisecond)
		byId["tC"].Do()
		wait("token C at J", visitJ)
	}

	wctx, wcancel := context.WithTimeout(context.Background(), 3*time.Second)
	defer wcancel()
	completed = proc.WaitUntilComplete(wctx)
	mu.Lock()
	endVisits = ends
	mu.Unlock()
	if !completed {
		buf := make([]byte, 1<<20)
		n := runtime.Stack(buf, true)
		for _, gr := range strings.Split(string(buf[:n]), "\n\n") {
			if strings.Contains(gr, "(*flow).Start.func1") {
				stacks += gr + "\n\n"
			}
		}
	}
	return
}

func TestF3_4_Control_ThirdTokenAfterProbe(t *testing.T) {
	completed, ends, _ := f34Run(t, false)
	t.Logf("control: completed=%v end visited %d times", completed, ends)
	if !completed {
		t.Fatalf("control run did not complete")
	}
}

func TestF3_4_ThirdTokenWhileSynchronized(t *testing.T) {
	completed, ends, stacks := f34Run(t, true)
	if !completed {
		t.Fatalf("instance did not complete within 3s: the third token's request to the inclusive join was dropped "+
			"(end visited %d times); parked token goroutine(s):\n%s", ends, stacks)
	}
	t.Logf("completed, end visited %d times", ends)
}
