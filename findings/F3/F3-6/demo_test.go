// F3-6 demo. Target: repository root (package bpmn_test).
// Copy to /tmp/wt/F3/f3_6_demo_test.go and run:
//   cd /tmp/wt/F3 && go test -vet=off -count=1 -v -run 'TestF3_6' .
//
// TestF3_6_Unit:    xpath.New(ctx).SetItemAwareLocator(...) panics (nil map).
// TestF3_6_Process: a plain process whose exclusive gateway has XPath condition
//   expressions (no data objects declared at all!) is run in a child process
//   (re-exec of the test binary) because the panic happens in a token goroutine
//   and kills the whole program; the parent asserts on the child's fate.
package bpmn_test

import (
	"context"
	"encoding/xml"
	"fmt"
	"os"
	"os/exec"
	"strings"
	"testing"
	"time"

	"github.com/olive-io/bpmn/schema"
	"github.com/olive-io/bpmn/v2"
	"github.com/olive-io/bpmn/v2/pkg/data"
	"github.com/olive-io/bpmn/v2/pkg/expression/xpath"
	"github.com/olive-io/bpmn/v2/pkg/tracing"
)

const f36XML = `<?xml version="1.0" encoding="UTF-8"?>
<bpmn:definitions xmlns:bpmn="http://www.omg.org/spec/BPMN/20100524/MODEL"
  xmlns:xsi="http://www.w3.org/2001/XMLSchema-instance" id="defs"
  targetNamespace="http://bpmn.io/schema/bpmn"
  expressionLanguage="http://www.w3.org/1999/XPath">
  <bpmn:process id="p" isExecutable="true">
    <bpmn:startEvent id="start"><bpmn:outgoing>f0</bpmn:outgoing></bpmn:startEvent>
    <bpmn:exclusiveGateway id="xor">
      <bpmn:incoming>f0</bpmn:incoming><bpmn:outgoing>fa</bpmn:outgoing><bpmn:outgoing>fb</bpmn:outgoing>
    </bpmn:exclusiveGateway>
    <bpmn:sequenceFlow id="f0" sourceRef="start" targetRef="xor"/>
    <bpmn:sequenceFlow id="fa" sourceRef="xor" targetRef="end">
      <bpmn:conditionExpression xsi:type="bpmn:tFormalExpression">true()</bpmn:conditionExpression>
    </bpmn:sequenceFlow>
    <bpmn:sequenceFlow id="fb" sourceRef="xor" targetRef="end">
      <bpmn:conditionExpression xsi:type="bpmn:tFormalExpression">false()</bpmn:conditionExpression>
    </bpmn:sequenceFlow>
    <bpmn:endEvent id="end"><bpmn:incoming>fa</bpmn:incoming><bpmn:incoming>fb</bpmn:incoming></bpmn:endEvent>
  </bpmn:process>
</bpmn:definitions>`

func TestF3_6_Unit(t *testing.T) {
	defer func() {
		if r := recover(); r != nil {
			t.Fatalf("xpath.New(ctx).SetItemAwareLocator panicked: %v", r)
		}
	}()
	engine := xpath.New(context.Background())
	engine.SetItemAwareLocator(data.LocatorObject, data.NewDataObjectContainer())
}

// child body: runs the process; prints COMPLETED when the instance completes.
func f36Child() {
	var defs schema.Definitions
	if err := xml.Unmarshal([]byte(f36XML), &defs); err != nil {
		fmt.Println("CHILD-ERROR", err)
		return
	}
	tracer := tracing.NewTracer(context.Background())
	traces := tracer.SubscribeChannel(make(chan tracing.ITrace, 1024))
	go func() {
		for tr := range traces {
			if e, ok := tracing.Unwrap(tr).(bpmn.ErrorTrace); ok {
				fmt.Println("CHILD-ERRORTRACE", e.Error)
			}
		}
	}()
	proc, err := bpmn.NewEngine().NewProcess(&defs, bpmn.WithTracer(tracer))
	if err != nil {
		fmt.Println("CHILD-ERROR", err)
		return
	}
	if err = proc.StartAll(context.Background()); err != nil {
		fmt.Println("CHILD-ERROR", err)
		return
	}
	ctx, cancel := context.WithTimeout(context.Background(), 5*time.Second)
	defer cancel()
	if proc.WaitUntilComplete(ctx) {
		fmt.Println("COMPLETED")
	} else {
		fmt.Println("NOT-COMPLETED")
	}
}

func TestF3_6_Process(t *testing.T) {
	if os.Getenv("F36_CHILD") == "1" {
		f36Child()
		return
	}
	ctx, cancel := context.WithTimeout(context.Background(), 25*time.Second)
	defer cancel()
	cmd := exec.CommandContext(ctx, os.Args[0], "-test.run=^TestF3_6_Process$", "-test.count=1")
	cmd.Env = append(os.Environ(), "F36_CHILD=1")
	out, err := cmd.CombinedOutput()
	s := string(out)
	if strings.Contains(s, "panic:") {
		// keep the first lines of the panic report
		lines := strings.Split(s[strings.Index(s, "panic:"):], "\n")
		if len(lines) > 14 {
			lines = lines[:14]
		}
		t.Fatalf("process with XPath condition expressions crashed the program (exit: %v):\n%s", err, strings.Join(lines, "\n"))
	}
	if !strings.Contains(s, "COMPLETED") || strings.Contains(s, "NOT-COMPLETED") {
		t.Fatalf("child did not complete: %v\n%s", err, s)
	}
	t.Logf("child output:\n%s", s)
}
