package schema

// F10: the generated accessor of an optional attribute without a default that returns a VALUE
// (`(result T, present bool)`) tested the field for nil and then dereferenced it anyway:
//
//	if t.IsExecutableField != nil { present = true }
//	result = *t.IsExecutableField
//
// 13 accessors: Process.IsExecutable, CompensateEventDefinition.WaitForCompletion,
// ResourceParameter.IsRequired, and ten in the diagram-interchange file (BPMNShape.IsHorizontal…,
// Font.Size…, Diagram.Resolution). DefinitionBuilder.AddProcess sets isExecutable only on the first
// process, so the second process of every builder-made definitions panicked here; Engine.NewProcess
// and NewProcessSet call the accessor on every process (there the optimiser happens to sink the load
// below the `present` test, so the panic shows with -race or -gcflags=-N only).
//
// Run from /repo/schema:  go test -vet=off -count=1 -run TestF10 .
// Before the fix: panic (nil pointer dereference). After: passes.

import "testing"

func TestF10AbsentOptionalAttribute(t *testing.T) {
	defer func() {
		if r := recover(); r != nil {
			t.Fatalf("accessor of an absent optional attribute panicked: %v", r)
		}
	}()
	b := NewDefinitionsBuilder()
	b.AddProcess(Process{})
	b.AddProcess(Process{})
	defs := b.Out()
	for i := range *defs.Processes() {
		p := &(*defs.Processes())[i]
		able, present := p.IsExecutable()
		if i > 0 && (able || present) {
			t.Fatalf("process %d: isExecutable absent, got able=%v present=%v", i, able, present)
		}
	}
	if v, ok := (&CompensateEventDefinition{}).WaitForCompletion(); v || ok {
		t.Fatal("WaitForCompletion")
	}
	if v, ok := (&ResourceParameter{}).IsRequired(); v || ok {
		t.Fatal("IsRequired")
	}
	if v, ok := (&BPMNShape{}).IsHorizontal(); v || ok {
		t.Fatal("IsHorizontal")
	}
	if v, ok := (&Font{}).Size(); v != 0 || ok {
		t.Fatal("Size")
	}
	if v, ok := (&Diagram{}).Resolution(); v != 0 || ok {
		t.Fatal("Resolution")
	}
}
