package bpmn_test

import (
	"context"
	"testing"
	"time"

	"github.com/olive-io/bpmn/schema"
	"github.com/olive-io/bpmn/v2"
	"github.com/olive-io/bpmn/v2/pkg/event"
	"github.com/olive-io/bpmn/v2/pkg/tracing"
)

// F14 (property C10: "on a non-interrupting boundary event the exception flow continues once per event"):
// testdata/boundary_event.bpmn, task `task` with the non-interrupting boundary event sig2listener -> uninterrupted.
// While `task` waits for its answer sig2 is delivered twice, one second apart. The exception flow has to continue
// twice (two visits of `uninterrupted`). On the engine as it is the listener is one token started once per
// harness: after the first sig2 it has left the boundary event and nothing listens any more.
func TestF14NonInterruptingBoundaryEventFiresPerEvent(t *testing.T) {
	var testDoc schema.Definitions
	LoadTestFile("testdata/boundary_event.bpmn", &testDoc)
	ctx, cancel := context.WithCancel(context.Background())
	defer cancel()
	tracer := tracing.NewTracer(ctx)
	traces := tracer.SubscribeChannel(make(chan tracing.ITrace, 256))
	inst, err := bpmn.NewEngine().NewProcess(&testDoc, bpmn.WithTracer(tracer))
	if err != nil {
		t.Fatal(err)
	}
	if err = inst.StartAll(ctx); err != nil {
		t.Fatal(err)
	}
	listening, active := false, false
	visits := 0
	wait := func(d time.Duration, until func() bool) {
		deadline := time.After(d)
		for !until() {
			select {
			case tr := <-traces:
				switch tt := tracing.Unwrap(tr).(type) {
				case bpmn.ActiveListeningTrace:
					if id, ok := tt.Node.Id(); ok && *id == "sig2listener" {
						listening = true
					}
				case bpmn.ActiveBoundaryTrace:
					if id, ok := tt.Node.Id(); ok && *id == "task" && tt.Start {
						active = true
					}
				case bpmn.VisitTrace:
					if id, ok := tt.Node.Id(); ok && *id == "uninterrupted" {
						visits++
					}
				case bpmn.TaskTrace:
					// `task` stays pending for the whole test; the exception task is answered
					if id, ok := tt.GetActivity().Element().Id(); ok && *id != "task" {
						tt.Do()
					}
				}
			case <-deadline:
				return
			}
		}
	}
	wait(5*time.Second, func() bool { return listening && active })
	if !listening || !active {
		t.Fatalf("the boundary event never listened (listening=%v active=%v)", listening, active)
	}
	if _, err = inst.ConsumeEvent(event.NewSignalEvent("sig2")); err != nil {
		t.Fatal(err)
	}
	wait(3*time.Second, func() bool { return visits >= 1 })
	if visits != 1 {
		t.Fatalf("first sig2: the exception flow was taken %d times, want 1", visits)
	}
	time.Sleep(500 * time.Millisecond)
	if _, err = inst.ConsumeEvent(event.NewSignalEvent("sig2")); err != nil {
		t.Fatal(err)
	}
	wait(3*time.Second, func() bool { return visits >= 2 })
	if visits != 2 {
		t.Fatalf("second sig2 while the task is still pending: the exception flow was taken %d times in all, want 2", visits)
	}
}
