package bpmn

import (
	"context"
	"testing"
	"time"

	"github.com/olive-io/bpmn/schema"
)

const twoStarts = `<?xml version="1.0" encoding="UTF-8"?>
<bpmn:definitions xmlns:bpmn="http://www.omg.org/spec/BPMN/20100524/MODEL" id="d" targetNamespace="x">
  <bpmn:process id="p" isExecutable="true">
    <bpmn:startEvent id="s1"><bpmn:outgoing>f1</bpmn:outgoing></bpmn:startEvent>
    <bpmn:startEvent id="s2"><bpmn:outgoing>f2</bpmn:outgoing></bpmn:startEvent>
    <bpmn:endEvent id="e1"><bpmn:incoming>f1</bpmn:incoming></bpmn:endEvent>
    <bpmn:endEvent id="e2"><bpmn:incoming>f2</bpmn:incoming></bpmn:endEvent>
    <bpmn:sequenceFlow id="f1" sourceRef="s1" targetRef="e1"/>
    <bpmn:sequenceFlow id="f2" sourceRef="s2" targetRef="e2"/>
  </bpmn:process>
</bpmn:definitions>`

func TestZZTwoStartEvents(t *testing.T) {
	for i := 0; i < 50; i++ {
		defs, err := schema.Parse([]byte(twoStarts))
		if err != nil {
			t.Fatal(err)
		}
		ctx, cancel := context.WithCancel(context.Background())
		proc, err := NewProcess(&(*defs.Processes())[0], defs, WithContext(ctx))
		if err != nil {
			t.Fatal(err)
		}
		done := make(chan error, 1)
		go func() { done <- proc.StartAll(ctx) }()
		select {
		case err := <-done:
			if err != nil {
				t.Fatal(err)
			}
		case <-time.After(3 * time.Second):
			t.Fatalf("iteration %d: StartAll did not return", i)
		}
		wctx, wcancel := context.WithTimeout(ctx, 3*time.Second)
		ok := proc.WaitUntilComplete(wctx)
		wcancel()
		if !ok {
			t.Fatalf("iteration %d: WaitUntilComplete false", i)
		}
		wctx, wcancel = context.WithTimeout(ctx, 3*time.Second)
		ok = proc.WaitUntilComplete(wctx)
		wcancel()
		cancel()
		if !ok {
			t.Fatalf("iteration %d: second WaitUntilComplete false", i)
		}
	}
}
