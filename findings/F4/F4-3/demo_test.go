// F4-3 demo: goroutines that call tracer.Send without holding a sender handle of that tracer are parked
// forever in (*tracer).Send once the tracer has terminated: (a) the harness relay goroutine
// ((*harness).run.func1), (b) (*Process).ceaseFlowMonitor (handle on p.tracer, sends on p.subTracer),
// (c) (*ProcessSet).run (no handle at all).
//
// Target directory/package: /tmp/wt/F4 (root, WHITE-BOX: package bpmn); copy this file there as f43_demo_test.go
// Commands:
//
//	cd /tmp/wt/F4 && GOPROXY=off GOSUMDB=off GOTOOLCHAIN=local go test -vet=off -count=1 -v -run 'TestF43._.*_Forced' .
//	cd /tmp/wt/F4 && GOPROXY=off GOSUMDB=off GOTOOLCHAIN=local go test -vet=off -count=1 -v -run 'TestF43._.*_Natural' .
//
// TestF43{a,b,c}_*_Forced: deterministic (~1-2 s each). The library code is unmodified; the only intervention
// is a pause injected at a call boundary of the suspect goroutine right before its tracer.Send (a test double
// that delegates to the real object), i.e. the goroutine is "descheduled" between its select wake-up and the
// Send while the context is cancelled. The real tracer then terminates without waiting for it (it holds no
// handle of that tracer) and the real (*tracer).Send parks forever.
// TestF43{a,b,c}_*_Natural: the same scenarios with NOTHING injected, only API calls racing with cancel();
// probabilistic, each bounded by 20 s, FAIL on the first leaked goroutine.
package bpmn

import (
	"context"
	"os"
	"runtime"
	"strings"
	"sync"
	"testing"
	"time"

	"github.com/olive-io/bpmn/schema"
	"github.com/olive-io/bpmn/v2/pkg/tracing"
)

func f43Load(t testing.TB, file string) *schema.Definitions {
	src, err := os.ReadFile(file)
	if err != nil {
		t.Fatal(err)
	}
	d, err := schema.Parse(src)
	if err != nil {
		t.Fatal(err)
	}
	return d
}

// f43Parked returns the stacks of all goroutines currently inside the real (*tracer).Send whose stack
// contains marker.
func f43Parked(marker string) []string {
	buf := make([]byte, 1<<22)
	n := runtime.Stack(buf, true)
	var res []string
	for _, g := range strings.Split(string(buf[:n]), "\n\n") {
		if strings.Contains(g, "tracing.(*tracer).Send") && strings.Contains(g, marker) {
			res = append(res, g)
		}
	}
	return res
}

func f43Closed(ch chan struct{}, d time.Duration) bool {
	select {
	case <-ch:
		return true
	case <-time.After(d):
		return false
	}
}

func f43Drain(ch chan tracing.ITrace) {
	go func() {
		for range ch {
		}
	}()
}

// gate: a one-shot pause point
type f43Gate struct {
	mu      sync.Mutex
	armed   bool
	reached chan struct{}
	release chan struct{}
}

func newF43Gate() *f43Gate {
	return &f43Gate{reached: make(chan struct{}), release: make(chan struct{})}
}
func (g *f43Gate) arm() { g.mu.Lock(); g.armed = true; g.mu.Unlock() }
func (g *f43Gate) pause() {
	g.mu.Lock()
	armed := g.armed
	g.armed = false
	g.mu.Unlock()
	if armed {
		close(g.reached)
		<-g.release
	}
}

// ---------------------------------------------------------------- (a) harness relay goroutine

// pausingActivity delegates everything to the real activity; Element() pauses once when it is called by
// the harness relay goroutine ((*harness).run.func1) while evaluating the argument of
// node.tracer.Send(ActiveBoundaryTrace{Start:false, Node: node.activity.Element()}), i.e. after the
// activity's answer was forwarded (out <- rsp) and right before the Send.
type pausingActivity struct {
	Activity
	gate *f43Gate
}

func (p *pausingActivity) Element() schema.FlowNodeInterface {
	buf := make([]byte, 4096)
	n := runtime.Stack(buf, false)
	if strings.Contains(string(buf[:n]), "(*harness).run.func1") {
		p.gate.pause()
	}
	return p.Activity.Element()
}

func TestF43a_HarnessRelay_Forced(t *testing.T) {
	defs := f43Load(t, "testdata/task.bpmn")
	ctx, cancel := context.WithCancel(context.Background())
	defer cancel()
	proc, err := NewEngine(WithEngineContext(ctx)).NewProcess(defs, WithContext(ctx))
	if err != nil {
		t.Fatal(err)
	}
	taskElem := &(*proc.element.Tasks())[0]
	fn, found := proc.flowNodeMapping.ResolveElementToFlowNode(taskElem)
	if !found {
		t.Fatal("task node not found")
	}
	gate := newF43Gate()
	h := fn.(*harness)
	h.activity = &pausingActivity{Activity: h.activity, gate: gate}

	traces := proc.Tracer().SubscribeChannel(make(chan tracing.ITrace, 1024))
	if err = proc.StartAll(ctx); err != nil {
		t.Fatal(err)
	}
	var task TaskTrace
	deadline := time.After(5 * time.Second)
	for task == nil {
		select {
		case tr := <-traces:
			if tt, ok := tracing.Unwrap(tr).(TaskTrace); ok {
				task = tt
			}
		case <-deadline:
			t.Fatal("no TaskTrace")
		}
	}
	f43Drain(traces)

	gate.arm()
	task.Do() // the user answers the task ...
	if !f43Closed(gate.reached, 5*time.Second) {
		t.Fatal("relay goroutine never reached the Send")
	}
	cancel() // ... and the process is cancelled at that very moment
	if !f43Closed(proc.subTracer.Done(), 5*time.Second) {
		t.Fatal("sub tracer did not terminate (so it would have waited for the relay goroutine)")
	}
	t.Log("sub tracer terminated while the harness relay goroutine still has a trace to send")
	close(gate.release)
	time.Sleep(300 * time.Millisecond)
	parked := f43Parked("(*harness).run.func1")
	if len(parked) > 0 {
		time.Sleep(1 * time.Second)
		if still := f43Parked("(*harness).run.func1"); len(still) > 0 {
			t.Errorf("LEAK: harness relay goroutine is parked forever in (*tracer).Send on the terminated tracer:\n%s", still[0])
		}
	}
}

// ---------------------------------------------------------------- (b) ceaseFlowMonitor

// pausingTracer delegates to the real tracer; Send pauses once right before delegating when the trace
// matches.
type pausingTracer struct {
	tracing.ITracer
	gate  *f43Gate
	match func(tracing.ITrace) bool
}

func (p *pausingTracer) Send(tr tracing.ITrace) {
	if p.match(tr) {
		p.gate.pause()
	}
	p.ITracer.Send(tr)
}

func TestF43b_CeaseFlowMonitor_Forced(t *testing.T) {
	defs := f43Load(t, "testdata/start.bpmn") // start -> end
	ctx, cancel := context.WithCancel(context.Background())
	defer cancel()
	proc, err := NewEngine(WithEngineContext(ctx)).NewProcess(defs, WithContext(ctx))
	if err != nil {
		t.Fatal(err)
	}
	realSub := proc.subTracer
	gate := newF43Gate()
	gate.arm()
	// only (*Process).ceaseFlowMonitor reads p.subTracer after construction
	proc.subTracer = &pausingTracer{ITracer: realSub, gate: gate, match: func(tr tracing.ITrace) bool {
		_, ok := tr.(CeaseFlowTrace)
		return ok
	}}
	traces := proc.Tracer().SubscribeChannel(make(chan tracing.ITrace, 1024))
	f43Drain(traces)
	if err = proc.StartAll(ctx); err != nil {
		t.Fatal(err)
	}
	// the last token is consumed, the monitor woke up on waitIsOver and is about to send CeaseFlowTrace
	if !f43Closed(gate.reached, 5*time.Second) {
		t.Fatal("monitor never reached the Send")
	}
	cancel()
	if !f43Closed(realSub.Done(), 5*time.Second) {
		t.Fatal("sub tracer did not terminate")
	}
	t.Log("sub tracer terminated while ceaseFlowMonitor still has CeaseFlowTrace to send on it")
	close(gate.release)
	time.Sleep(300 * time.Millisecond)
	if parked := f43Parked("ceaseFlowMonitor"); len(parked) > 0 {
		time.Sleep(1 * time.Second)
		still := f43Parked("ceaseFlowMonitor")
		if len(still) > 0 {
			t.Errorf("LEAK: ceaseFlowMonitor goroutine is parked forever in (*tracer).Send on the terminated sub tracer:\n%s", still[0])
		}
		// consequences: the monitor holds a sender handle of p.tracer and p.complete
		if !f43Closed(proc.tracer.Done(), 1*time.Second) {
			t.Errorf("consequence: the process tracer (p.tracer) never terminates although its context is cancelled (subscriber channels are never closed)")
		}
		if proc.complete.TryLock() {
			proc.complete.Unlock()
		} else {
			t.Errorf("consequence: p.complete stays locked forever")
		}
	}
}

// ---------------------------------------------------------------- (c) ProcessSet.run

func TestF43c_ProcessSetRun_Forced(t *testing.T) {
	defs := f43Load(t, "testdata/start.bpmn")
	ctx, cancel := context.WithCancel(context.Background())
	defer cancel()
	real := tracing.NewTracer(ctx)
	gate := newF43Gate()
	gate.arm()
	wrapped := &pausingTracer{ITracer: real, gate: gate, match: func(tr tracing.ITrace) bool {
		_, ok := tr.(CeaseProcessSetTrace)
		return ok
	}}
	ps, err := NewEngine(WithEngineContext(ctx)).NewProcessSet(defs, WithContext(ctx), WithTracer(wrapped))
	if err != nil {
		t.Fatal(err)
	}
	traces := real.SubscribeChannel(make(chan tracing.ITrace, 1024))
	f43Drain(traces)
	if err = ps.StartAll(ctx); err != nil {
		t.Fatal(err)
	}
	wctx, wcancel := context.WithTimeout(context.Background(), 5*time.Second)
	defer wcancel()
	if !ps.WaitUntilComplete(wctx) {
		t.Fatal("process set did not complete")
	}
	if !f43Closed(gate.reached, 5*time.Second) {
		t.Fatal("ProcessSet.run never reached the Send")
	}
	cancel() // typical: `defer cancel()` right after WaitUntilComplete returned
	if !f43Closed(real.Done(), 5*time.Second) {
		t.Fatal("process set tracer did not terminate")
	}
	t.Log("process set tracer terminated while ProcessSet.run still has CeaseProcessSetTrace to send")
	close(gate.release)
	time.Sleep(300 * time.Millisecond)
	if parked := f43Parked("(*ProcessSet).run"); len(parked) > 0 {
		time.Sleep(1 * time.Second)
		if still := f43Parked("(*ProcessSet).run"); len(still) > 0 {
			t.Errorf("LEAK: (*ProcessSet).run is parked forever in (*tracer).Send on the terminated tracer:\n%s", still[0])
		}
	}
}

// ---------------------------------------------------------------- natural (no pause injected)
//
// Same scenarios with nothing injected: only public-API calls racing with cancel(). GOMAXPROCS is set to 8
// (rates observed: (a) ~1/1500, (b) ~1/300, (c) ~1/50 iterations). Each test loops until the first leak or
// until its time budget is used up (then it passes, logging that nothing was observed).

const f43Budget = 20 * time.Second

func f43Spin(d time.Duration) {
	t0 := time.Now()
	for time.Since(t0) < d {
	}
}

func f43Natural(t *testing.T, marker string, iteration func(n int)) {
	defer runtime.GOMAXPROCS(runtime.GOMAXPROCS(8))
	end := time.Now().Add(f43Budget)
	n := 0
	for time.Now().Before(end) {
		before := len(f43Parked(marker))
		iteration(n)
		n++
		time.Sleep(2 * time.Millisecond)
		if len(f43Parked(marker)) > before {
			time.Sleep(500 * time.Millisecond)
			if still := f43Parked(marker); len(still) > before {
				t.Fatalf("LEAK without any injected pause, in iteration %d: goroutine parked forever in (*tracer).Send on a terminated tracer:\n%s",
					n, still[len(still)-1])
			}
		}
	}
	t.Logf("no leak observed in %d iterations / %v", n, f43Budget)
}

// (a) the user answers the task, the process is cancelled a few microseconds later
func TestF43a_HarnessRelay_Natural(t *testing.T) {
	defs := f43Load(t, "testdata/task.bpmn")
	f43Natural(t, "(*harness).run.func1", func(n int) {
		ctx, cancel := context.WithCancel(context.Background())
		defer cancel()
		proc, err := NewEngine(WithEngineContext(ctx)).NewProcess(defs, WithContext(ctx))
		if err != nil {
			t.Fatal(err)
		}
		traces := proc.Tracer().SubscribeChannel(make(chan tracing.ITrace, 1024))
		if err = proc.StartAll(ctx); err != nil {
			t.Fatal(err)
		}
		var task TaskTrace
		deadline := time.After(5 * time.Second)
		for task == nil {
			select {
			case tr := <-traces:
				if tt, ok := tracing.Unwrap(tr).(TaskTrace); ok {
					task = tt
				}
			case <-deadline:
				t.Fatal("no TaskTrace")
			}
		}
		f43Drain(traces)
		task.Do()
		f43Spin(time.Duration(n%40) * 500 * time.Nanosecond)
		cancel()
		f43Closed(proc.subTracer.Done(), 2*time.Second)
	})
}

// (b) the process is cancelled right when its end event completes
func TestF43b_CeaseFlowMonitor_Natural(t *testing.T) {
	defs := f43Load(t, "testdata/start.bpmn")
	f43Natural(t, "ceaseFlowMonitor", func(n int) {
		ctx, cancel := context.WithCancel(context.Background())
		defer cancel()
		proc, err := NewEngine(WithEngineContext(ctx)).NewProcess(defs, WithContext(ctx))
		if err != nil {
			t.Fatal(err)
		}
		traces := proc.Tracer().SubscribeChannel(make(chan tracing.ITrace, 1024))
		if err = proc.StartAll(ctx); err != nil {
			t.Fatal(err)
		}
		deadline := time.After(5 * time.Second)
	wait:
		for {
			select {
			case tr := <-traces:
				if _, ok := tracing.Unwrap(tr).(CompletionTrace); ok {
					break wait
				}
			case <-deadline:
				t.Fatal("no CompletionTrace")
			}
		}
		f43Drain(traces)
		f43Spin(time.Duration(n%40) * 250 * time.Nanosecond)
		cancel()
		f43Closed(proc.subTracer.Done(), 2*time.Second)
	})
}

// (c) the textbook usage: StartAll(ctx); WaitUntilComplete(ctx); cancel()
func TestF43c_ProcessSetRun_Natural(t *testing.T) {
	defs := f43Load(t, "testdata/start.bpmn")
	f43Natural(t, "(*ProcessSet).run", func(n int) {
		ctx, cancel := context.WithCancel(context.Background())
		defer cancel()
		ps, err := NewEngine(WithEngineContext(ctx)).NewProcessSet(defs, WithContext(ctx))
		if err != nil {
			t.Fatal(err)
		}
		if err = ps.StartAll(ctx); err != nil {
			t.Fatal(err)
		}
		wctx, wcancel := context.WithTimeout(ctx, 200*time.Millisecond)
		ps.WaitUntilComplete(wctx)
		wcancel()
		cancel()
		f43Closed(ps.tracer.Done(), 2*time.Second)
	})
}
