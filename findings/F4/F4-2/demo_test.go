// F4-2 demo: logic.NewCatchEventSatisfier drops the error of NewEventDefinitionInstance, leaving a nil
// event.IDefinitionInstance in the satisfier; the first event delivered to the listening catch event makes
// (*catchEvent).run panic (nil interface method call in MatchesEventInstance) and the whole program dies.
//
// Target directory/package: /tmp/wt/F4  (root, package bpmn_test); copy this file there as f42_demo_test.go
// Command:
//
//	cd /tmp/wt/F4 && GOPROXY=off GOSUMDB=off GOTOOLCHAIN=local go test -vet=off -count=1 -v -run 'TestF42' .
//
// The scenario runs in a re-exec'd child of the test binary (F42_CHILD=<variant>); the parent asserts on the
// child's exit status/stderr. The test FAILS when the child crashed (= defect present).
package bpmn_test

import (
	"bytes"
	"context"
	"fmt"
	"os"
	"os/exec"
	"strings"
	"testing"
	"time"

	"github.com/olive-io/bpmn/schema"
	"github.com/olive-io/bpmn/v2"
	"github.com/olive-io/bpmn/v2/pkg/clock"
	"github.com/olive-io/bpmn/v2/pkg/event"
	"github.com/olive-io/bpmn/v2/pkg/timer"
	"github.com/olive-io/bpmn/v2/pkg/tracing"
)

const f42DocTmpl = `<?xml version="1.0" encoding="UTF-8"?>
<bpmn:definitions xmlns:bpmn="http://www.omg.org/spec/BPMN/20100524/MODEL" xmlns:xsi="http://www.w3.org/2001/XMLSchema-instance" id="Defs" targetNamespace="http://bpmn.io/schema/bpmn">
  <bpmn:process id="P" isExecutable="true">
    <bpmn:startEvent id="start"><bpmn:outgoing>f1</bpmn:outgoing></bpmn:startEvent>
    <bpmn:sequenceFlow id="f1" sourceRef="start" targetRef="ev" />
    <bpmn:intermediateCatchEvent id="ev">
      <bpmn:incoming>f1</bpmn:incoming>
      <bpmn:outgoing>f2</bpmn:outgoing>
      <bpmn:timerEventDefinition id="T">%s</bpmn:timerEventDefinition>
    </bpmn:intermediateCatchEvent>
    <bpmn:endEvent id="end"><bpmn:incoming>f2</bpmn:incoming></bpmn:endEvent>
    <bpmn:sequenceFlow id="f2" sourceRef="ev" targetRef="end" />
  </bpmn:process>
</bpmn:definitions>`

var f42Variants = map[string]string{
	"good":        `<bpmn:timeDuration xsi:type="bpmn:tFormalExpression">PT1M</bpmn:timeDuration>`,
	"badduration": `<bpmn:timeDuration xsi:type="bpmn:tFormalExpression">not-a-duration</bpmn:timeDuration>`,
	"empty":       ``,
}

// f42Child runs in the re-exec'd child. It never recovers anything.
func f42Child(variant string) {
	defs, err := schema.Parse([]byte(fmt.Sprintf(f42DocTmpl, f42Variants[variant])))
	if err != nil {
		fmt.Println("CHILD: parse error:", err)
		os.Exit(3)
	}
	engine := bpmn.NewEngine()
	fanOut := event.NewFanOut()
	c := clock.NewMock()
	ctx, cancel := context.WithCancel(clock.ToContext(context.Background(), c))
	defer cancel()
	tracer := tracing.NewTracer(ctx)
	builder := event.DefinitionInstanceBuildingChain(
		timer.EventDefinitionInstanceBuilder(ctx, fanOut, tracer),
		event.WrappingDefinitionInstanceBuilder,
	)
	// sanity: show what the builder says about this definition
	ce := (*(*defs.Processes())[0].IntermediateCatchEvents())[0]
	inst, berr := builder.NewEventDefinitionInstance(ce.EventDefinitions()[0])
	fmt.Printf("CHILD: builder on the timer definition: instance=%v err=%v\n", inst, berr)

	traces := tracer.SubscribeChannel(make(chan tracing.ITrace, 128))
	proc, err := engine.NewProcess(defs, bpmn.WithTracer(tracer), bpmn.WithContext(ctx),
		bpmn.WithProcessEventDefinitionInstanceBuilder(builder),
		bpmn.WithEventEgress(fanOut), bpmn.WithEventIngress(fanOut))
	fmt.Printf("CHILD: NewProcess err=%v\n", err)
	if err != nil {
		os.Exit(4) // would be the sane outcome for a malformed timer
	}
	if err = proc.StartAll(ctx); err != nil {
		fmt.Println("CHILD: StartAll error:", err)
		os.Exit(5)
	}
	deadline := time.After(5 * time.Second)
	listening := false
	for !listening {
		select {
		case tr := <-traces:
			if _, ok := tracing.Unwrap(tr).(bpmn.ActiveListeningTrace); ok {
				listening = true
			}
		case <-deadline:
			fmt.Println("CHILD: catch event never started listening")
			os.Exit(6)
		}
	}
	fmt.Println("CHILD: catch event is listening; delivering an unrelated signal event")
	_, err = proc.ConsumeEvent(event.NewSignalEvent("some-unrelated-signal"))
	fmt.Printf("CHILD: ConsumeEvent err=%v\n", err)
	// give catchEvent.run time to process the event (it would have crashed us by now)
	observed := false
	deadline = time.After(3 * time.Second)
	for !observed {
		select {
		case tr := <-traces:
			if _, ok := tracing.Unwrap(tr).(bpmn.EventObservedTrace); ok {
				observed = true
			}
		case <-deadline:
			fmt.Println("CHILD: EventObservedTrace not seen")
			os.Exit(7)
		}
	}
	time.Sleep(500 * time.Millisecond)
	fmt.Println("CHILD: SURVIVED")
	os.Exit(0)
}

func TestMain(m *testing.M) {
	if v := os.Getenv("F42_CHILD"); v != "" {
		f42Child(v)
		return
	}
	os.Exit(m.Run())
}

func f42Run(t *testing.T, variant string) (out string, err error) {
	ctx, cancel := context.WithTimeout(context.Background(), 20*time.Second)
	defer cancel()
	cmd := exec.CommandContext(ctx, os.Args[0], "-test.run=^$")
	cmd.Env = append(os.Environ(), "F42_CHILD="+variant)
	var buf bytes.Buffer
	cmd.Stdout, cmd.Stderr = &buf, &buf
	err = cmd.Run()
	return buf.String(), err
}

func f42Check(t *testing.T, variant string) {
	out, err := f42Run(t, variant)
	t.Logf("child(%s) exit: %v\n%s", variant, err, out)
	if strings.Contains(out, "panic:") {
		where := "?"
		for _, l := range strings.Split(out, "\n") {
			if strings.Contains(l, "catchEvent).run") || strings.Contains(l, "MatchesEventInstance") || strings.Contains(l, "Satisfy") {
				where += " | " + strings.TrimSpace(l)
			}
		}
		t.Fatalf("child process CRASHED with an unrecovered panic after an event was delivered to the catch event with malformed timer (%s): %s", variant, where)
	}
	if err != nil {
		t.Fatalf("child(%s) failed without panic: %v", variant, err)
	}
}

func TestF42_Control_WellFormedTimer(t *testing.T)    { f42Check(t, "good") }
func TestF42_MalformedDuration_Crash(t *testing.T)    { f42Check(t, "badduration") }
func TestF42_EmptyTimerDefinition_Crash(t *testing.T) { f42Check(t, "empty") }
