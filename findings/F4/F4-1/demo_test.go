// F4-1 demo (a) + (b, marshal||marshal): schema.PreMarshal writes to the model while serialising it.
//
// Target directory/package: /tmp/wt/F4/schema  (package schema); copy this file there as f41_demo_test.go
// Commands:
//   (a) cd /tmp/wt/F4/schema && GOPROXY=off GOSUMDB=off GOTOOLCHAIN=local go test -vet=off -count=1 -run 'TestF41_MarshalMutatesModel' .
//   (b) cd /tmp/wt/F4/schema && GOPROXY=off GOSUMDB=off GOTOOLCHAIN=local go test -race -vet=off -count=1 -run 'TestF41_ConcurrentMarshalRace' .
// The companion file demo_engine_test.go (package bpmn, root dir) shows marshal || condition evaluation.
package schema

import (
	"encoding/xml"
	"reflect"
	"sync"
	"testing"
)

const f41Doc = `<?xml version="1.0" encoding="UTF-8"?>
<bpmn:definitions xmlns:bpmn="http://www.omg.org/spec/BPMN/20100524/MODEL" xmlns:xsi="http://www.w3.org/2001/XMLSchema-instance" id="Defs" targetNamespace="http://bpmn.io/schema/bpmn" expressionLanguage="https://github.com/expr-lang/expr">
  <bpmn:process id="P" isExecutable="true">
    <bpmn:startEvent id="start"><bpmn:outgoing>f1</bpmn:outgoing></bpmn:startEvent>
    <bpmn:endEvent id="end"><bpmn:incoming>f1</bpmn:incoming></bpmn:endEvent>
    <bpmn:sequenceFlow id="f1" sourceRef="start" targetRef="end">
      <bpmn:conditionExpression xsi:type="bpmn:tFormalExpression">
          a ==   1
      </bpmn:conditionExpression>
    </bpmn:sequenceFlow>
  </bpmn:process>
</bpmn:definitions>`

func f41Parse(t testing.TB) *Definitions {
	d, err := Parse([]byte(f41Doc))
	if err != nil {
		t.Fatal(err)
	}
	return d
}

func f41Expr(t testing.TB, d *Definitions) *FormalExpression {
	el, found := d.FindBy(ExactId("f1"))
	if !found {
		t.Fatal("f1 not found")
	}
	ce, present := el.(*SequenceFlow).ConditionExpression()
	if !present {
		t.Fatal("no condition expression")
	}
	fe, ok := ce.Expression.(*FormalExpression)
	if !ok {
		t.Fatalf("unexpected expression type %T", ce.Expression)
	}
	return fe
}

// (a) serialising a model must not alter it.
func TestF41_MarshalMutatesModel(t *testing.T) {
	marshalled := f41Parse(t)
	pristine := f41Parse(t) // deep copy: same bytes parsed twice
	if !reflect.DeepEqual(marshalled, pristine) {
		t.Fatal("precondition: two parses of the same bytes differ")
	}

	// raw fields before
	start, _ := marshalled.FindBy(ExactId("start"))
	startEv := start.(*StartEvent)
	exprBefore := f41Expr(t, marshalled)
	rawExprBefore := string(*exprBefore.TextPayloadField)
	rawExprPtrBefore := exprBefore.TextPayloadField
	procBefore := (*marshalled.Processes())[0].TextPayloadField
	t.Logf("before: expression raw payload=%q, process payload ptr nil=%v, startEvent payload=%v",
		rawExprBefore, procBefore == nil, startEv.TextPayloadField)

	if _, err := xml.Marshal(marshalled); err != nil {
		t.Fatal(err)
	}

	exprAfter := f41Expr(t, marshalled)
	rawExprAfter := string(*exprAfter.TextPayloadField)
	t.Logf("after:  expression raw payload=%q (pointer replaced=%v)", rawExprAfter, exprAfter.TextPayloadField != rawExprPtrBefore)

	if rawExprBefore != rawExprAfter {
		t.Errorf("xml.Marshal rewrote FormalExpression.TextPayloadField: %q -> %q", rawExprBefore, rawExprAfter)
	}
	if exprAfter.TextPayloadField != rawExprPtrBefore {
		t.Errorf("xml.Marshal replaced the FormalExpression.TextPayloadField pointer (a write to the shared model)")
	}
	// an explicitly text-less element built programmatically: nil payload becomes non-nil
	sig := DefaultSignal()
	if sig.TextPayloadField != nil {
		t.Fatal("precondition: DefaultSignal has a payload")
	}
	if _, err := xml.Marshal(&sig); err != nil {
		t.Fatal(err)
	}
	if sig.TextPayloadField != nil {
		t.Errorf("xml.Marshal turned a nil TextPayloadField into a non-nil one (%q)", string(*sig.TextPayloadField))
	}
	if !reflect.DeepEqual(marshalled, pristine) {
		t.Errorf("model differs from a pristine parse of the same bytes after xml.Marshal")
	}
}

// (b) run with -race: two goroutines serialising the same (read-only, one would think) model.
func TestF41_ConcurrentMarshalRace(t *testing.T) {
	d := f41Parse(t)
	var wg sync.WaitGroup
	for g := 0; g < 2; g++ {
		wg.Add(1)
		go func() {
			defer wg.Done()
			for i := 0; i < 200; i++ {
				if _, err := xml.Marshal(d); err != nil {
					t.Error(err)
					return
				}
			}
		}()
	}
	wg.Wait()
}
