// F4-1 demo (b, marshal || condition evaluation): xml.Marshal of a *schema.Definitions writes the
// FormalExpression.TextPayloadField that a running process instance reads in (*flow).executeSequenceFlow.
//
// Target directory/package: /tmp/wt/F4  (root, package bpmn_test); copy this file there as f41_engine_demo_test.go
// Command:
//   cd /tmp/wt/F4 && GOPROXY=off GOSUMDB=off GOTOOLCHAIN=local go test -race -vet=off -count=1 -run 'TestF41_MarshalVsConditionEvalRace' .
package bpmn_test

import (
	"context"
	"encoding/xml"
	"os"
	"sync"
	"testing"
	"time"

	"github.com/olive-io/bpmn/schema"
	"github.com/olive-io/bpmn/v2"
	_ "github.com/olive-io/bpmn/v2/pkg/expression/expr"
)

func TestF41_MarshalVsConditionEvalRace(t *testing.T) {
	src, err := os.ReadFile("testdata/condexpr.bpmn")
	if err != nil {
		t.Fatal(err)
	}
	defs, err := schema.Parse(src)
	if err != nil {
		t.Fatal(err)
	}

	stop := make(chan struct{})
	var wg sync.WaitGroup
	wg.Add(1)
	go func() { // e.g. an admin endpoint exporting the deployed model
		defer wg.Done()
		for {
			select {
			case <-stop:
				return
			default:
			}
			if _, err := xml.Marshal(defs); err != nil {
				t.Error(err)
				return
			}
		}
	}()

	for i := 0; i < 50; i++ {
		ctx, cancel := context.WithTimeout(context.Background(), 5*time.Second)
		engine := bpmn.NewEngine(bpmn.WithEngineContext(ctx))
		instance, err := engine.NewProcess(defs, bpmn.WithContext(ctx))
		if err != nil {
			t.Fatal(err)
		}
		if err = instance.StartAll(ctx); err != nil {
			t.Fatal(err)
		}
		if !instance.WaitUntilComplete(ctx) {
			t.Fatal("process did not complete in 5s")
		}
		cancel()
	}
	close(stop)
	wg.Wait()
}
