// F2-1 demo: (*Process).StartWith triggers the start event BEFORE the
// completion monitor (ceaseFlowMonitor) subscribes to the trace stream.
//
// Target: repository root, package bpmn (white-box not required, but kept in
// package bpmn for uniformity).  Copy to /tmp/wt/F2/f2_1_demo_test.go and run
//
//   cd /tmp/wt/F2 && go test -vet=off -count=1 -timeout 120s -run 'TestF2_1' -v .
//
// TestF2_1_Deterministic widens the window between Trigger() and Subscribe()
// using only public API: a user supplied ITracer (WithTracer) whose
// RegisterSender() is slow (it is the only call StartWith makes between
// eventNode.Trigger(ctx) and p.ceaseFlowMonitor(p.subTracer)).
// TestF2_1_Stress uses only the stock tracer and repeats start->end (4 workers,
// <=20 s) while the garbage collector is kept busy (mark assists delay the
// starting goroutine inside the window); stops after 3 failures.
package bpmn

import (
	"context"
	"encoding/xml"
	"os"
	"runtime"
	"strings"
	"runtime/debug"
	"sync"
	"sync/atomic"
	"testing"
	"time"

	"github.com/olive-io/bpmn/schema"
	"github.com/olive-io/bpmn/v2/pkg/tracing"
)

func f21Load(t testing.TB, file string) *schema.Definitions {
	var defs schema.Definitions
	src, err := os.ReadFile(file)
	if err != nil {
		t.Fatal(err)
	}
	if err = xml.Unmarshal(src, &defs); err != nil {
		t.Fatal(err)
	}
	return &defs
}

// slowTracer delegates everything to a stock tracer, RegisterSender is slow.
type f21SlowTracer struct {
	tracing.ITracer
	delay time.Duration
}

func (s *f21SlowTracer) RegisterSender() tracing.ISenderHandle {
	time.Sleep(s.delay)
	return s.ITracer.RegisterSender()
}

// f21RunOnce runs one start->end instance.  Result:
//   ended    - the end event's TerminationTrace was observed (the only token is gone)
//   ceased   - a CeaseFlowTrace was observed within `grace` after that
//   complete - result of a final WaitUntilComplete(1s) issued after the grace period
func f21RunOnce(t testing.TB, defs *schema.Definitions, delay, grace time.Duration) (ended, ceased, complete bool) {
	// NB: the context is deliberately never cancelled: a cancelled tracer
	// busy-spins in (*tracer).run until all senders are done, which would
	// starve the following iterations of CPU.
	ctx := context.Background()
	var tr tracing.ITracer = tracing.NewTracer(ctx)
	if delay > 0 {
		tr = &f21SlowTracer{ITracer: tr, delay: delay}
	}
	traces := tr.SubscribeChannel(make(chan tracing.ITrace, 256))
	endedCh := make(chan struct{})
	ceasedCh := make(chan struct{})
	go func() {
		for trace := range traces {
			switch tt := tracing.Unwrap(trace).(type) {
			case TerminationTrace:
				if _, isEnd := tt.Source.(*schema.EndEvent); isEnd {
					close(endedCh)
				}
			case CeaseFlowTrace:
				close(ceasedCh)
			}
		}
	}()
	proc, err := NewEngine(WithEngineContext(ctx)).NewProcess(defs, WithTracer(tr), WithContext(ctx))
	if err != nil {
		t.Fatal(err)
	}
	if err = proc.StartAll(ctx); err != nil {
		t.Fatal(err)
	}
	select {
	case <-endedCh:
		ended = true
	case <-time.After(10 * time.Second):
		return // stalled for another reason; not counted
	}
	select {
	case <-ceasedCh:
		ceased = true
	case <-time.After(grace):
	}
	wctx, wcancel := context.WithTimeout(ctx, time.Second)
	defer wcancel()
	complete = proc.WaitUntilComplete(wctx)
	return
}

func TestF2_1_Deterministic(t *testing.T) {
	defs := f21Load(t, "testdata/start.bpmn")
	const n = 3
	failed := 0
	for i := 0; i < n; i++ {
		ended, ceased, complete := f21RunOnce(t, defs, 50*time.Millisecond, 2*time.Second)
		if ended && (!ceased || !complete) {
			failed++
			t.Logf("iteration %d: token reached end and terminated, but CeaseFlowTrace seen=%v, WaitUntilComplete=%v", i, ceased, complete)
		}
	}
	if failed > 0 {
		t.Fatalf("%d/%d start->end instances never reported completion", failed, n)
	}
}

func TestF2_1_Stress(t *testing.T) {
	defs := f21Load(t, "testdata/start.bpmn")
	// Keep the garbage collector permanently busy so that the two small
	// allocations StartWith performs between Trigger() and the subscription
	// (tracer.Subscribe: make(chan ITrace, 10), make(chan struct{}, 1)) are
	// likely to be charged a mark assist, i.e. the starting goroutine is
	// delayed by some tens of microseconds inside the window.
	defer debug.SetGCPercent(debug.SetGCPercent(1))
	type node struct {
		next *node
		pad  [6]uintptr
	}
	var ballast *node
	for i := 0; i < 2_000_000; i++ {
		ballast = &node{next: ballast}
	}
	stop := make(chan struct{})
	defer close(stop)
	var sink atomic.Pointer[[]byte]
	for i := 0; i < 4; i++ {
		go func() {
			for {
				select {
				case <-stop:
					return
				default:
					b := make([]byte, 64<<10)
					sink.Store(&b)
				}
			}
		}()
	}
	deadline := time.Now().Add(20 * time.Second)
	const workers = 4
	var total, failed, stalled atomic.Int64
	var wg sync.WaitGroup
	for w := 0; w < workers; w++ {
		wg.Add(1)
		go func() {
			defer wg.Done()
			for time.Now().Before(deadline) && failed.Load() < 3 {
				ended, ceased, complete := f21RunOnce(t, defs, 0, 3*time.Second)
				total.Add(1)
				if !ended {
					stalled.Add(1)
					continue
				}
				if !ceased || !complete {
					failed.Add(1)
					t.Logf("iteration %d: end event terminated, but CeaseFlowTrace within 3s=%v, WaitUntilComplete=%v", total.Load(), ceased, complete)
				}
			}
		}()
	}
	wg.Wait()
	runtime.KeepAlive(ballast)
	// All workers are done; every monitor of a completed instance has exited.
	// Monitors still alive are parked in their first loop (waiting for a start
	// event FlowTrace that was emitted before they subscribed).
	buf := make([]byte, 64<<20)
	buf = buf[:runtime.Stack(buf, true)]
	stuck := 0
	for _, g := range strings.Split(string(buf), "\n\n") {
		if strings.Contains(g, "(*Process).ceaseFlowMonitor.func1") && strings.Contains(g, "[select") {
			stuck++
		}
	}
	t.Logf("completion monitors still parked in select after all instances finished: %d", stuck)
	t.Logf("%d/%d iterations failed (%d stalled before reaching the end event, not counted)", failed.Load(), total.Load(), stalled.Load())
	if failed.Load() > 0 {
		t.Errorf("%d/%d start->end instances never reported completion (stock tracer)", failed.Load(), total.Load())
	}
}
