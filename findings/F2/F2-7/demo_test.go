// F2-7 demo: the normal flow of an activity continues after an INTERRUPTING
// boundary event fired.  genericTask answers the Cancel request with `false`
// while a request is pending (active > 1) and nothing suppresses the later
// answer, so after TaskTrace.Do() the host task's normal outgoing sequence flow
// is taken in addition to the exception flow.
//
// Target: repository root, package bpmn.
//   cp /tmp/find/F2/F2-7/demo_test.go /tmp/wt/F2/f2_7_demo_test.go
//   cd /tmp/wt/F2 && go test -vet=off -count=1 -timeout 60s -run 'TestF2_7' -v .
//
// testdata/boundary_event.bpmn: start -> task -> end; sig1listener (cancelActivity=true)
// on task -> interrupted -> end.  The test never answers the `interrupted` task, so
// the only way `end` can be visited is through the host task's normal flow.
package bpmn

import (
	"context"
	"encoding/xml"
	"os"
	"strings"
	"sync"
	"testing"
	"time"

	"github.com/olive-io/bpmn/schema"
	"github.com/olive-io/bpmn/v2/pkg/event"
	"github.com/olive-io/bpmn/v2/pkg/tracing"
)

func TestF2_7_NormalFlowContinuesAfterInterruption(t *testing.T) {
	var defs schema.Definitions
	src, err := os.ReadFile("testdata/boundary_event.bpmn")
	if err != nil {
		t.Fatal(err)
	}
	if err = xml.Unmarshal(src, &defs); err != nil {
		t.Fatal(err)
	}
	ctx := context.Background()
	tr := tracing.NewTracer(ctx)
	traces := tr.SubscribeChannel(make(chan tracing.ITrace, 256))

	var mu sync.Mutex
	var log []string
	hostTask := make(chan TaskTrace, 1)
	listening := make(chan struct{})
	interruptedVisited := make(chan struct{})
	endVisited := make(chan struct{})
	taskFlowed := make(chan struct{})
	go func() {
		for trace := range traces {
			trace = tracing.Unwrap(trace)
			mu.Lock()
			switch tt := trace.(type) {
			case VisitTrace:
				id, _ := tt.Node.Id()
				log = append(log, "Visit "+*id)
				switch *id {
				case "interrupted":
					close(interruptedVisited)
				case "end":
					close(endVisited)
				}
			case ActiveListeningTrace:
				id, _ := tt.Node.Id()
				log = append(log, "Listening "+*id)
				if *id == "sig1listener" {
					close(listening)
				}
			case TaskTrace:
				id, _ := tt.GetActivity().Element().Id()
				log = append(log, "TaskTrace "+*id)
				if *id == "task" {
					hostTask <- tt
				}
				// `interrupted` is deliberately never answered
			case FlowTrace:
				id, _ := tt.Source.Id()
				log = append(log, "Flow from "+*id)
				if *id == "task" {
					close(taskFlowed)
				}
			case CancellationFlowNodeTrace:
				id, _ := tt.Node.Id()
				log = append(log, "CancellationFlowNode "+*id)
			}
			mu.Unlock()
		}
	}()

	proc, err := NewEngine().NewProcess(&defs, WithTracer(tr))
	if err != nil {
		t.Fatal(err)
	}
	if err = proc.StartAll(ctx); err != nil {
		t.Fatal(err)
	}

	wait := func(ch <-chan struct{}, what string) {
		select {
		case <-ch:
		case <-time.After(5 * time.Second):
			t.Fatalf("timed out waiting for %s (unrelated problem)", what)
		}
	}
	var host TaskTrace
	select {
	case host = <-hostTask:
	case <-time.After(5 * time.Second):
		t.Fatal("host task never activated")
	}
	wait(listening, "sig1listener listening")

	// the host task's request is pending; fire the interrupting boundary event
	if _, err = proc.ConsumeEvent(event.NewSignalEvent("sig1")); err != nil {
		t.Fatal(err)
	}
	wait(interruptedVisited, "exception flow visiting `interrupted`")

	// the activity has been interrupted; now the (late) answer arrives
	host.Do()

	normalContinued := false
	select {
	case <-taskFlowed:
		normalContinued = true
	case <-time.After(2 * time.Second):
	}
	endReached := false
	select {
	case <-endVisited:
		endReached = true
	case <-time.After(500 * time.Millisecond):
	}
	mu.Lock()
	t.Logf("trace log: %s", strings.Join(log, " | "))
	mu.Unlock()
	if normalContinued || endReached {
		t.Fatalf("interrupting boundary event fired (exception flow reached `interrupted`), yet after answering the host task its normal flow continued too: FlowTrace from task=%v, `end` visited=%v",
			normalContinued, endReached)
	}
}
