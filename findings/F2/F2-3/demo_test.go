// F2-3 demo: calling (*ProcessSet).WaitUntilComplete twice panics with
// "close of closed channel" (every call spawns `go func(){ ps.wg.Wait(); close(ps.done) }()`).
//
// The panic happens in a library goroutine and therefore kills the whole
// process; the test re-executes the test binary as a child process and
// inspects its exit status/output.
//
// Target: repository root, package bpmn.
//   cp /tmp/find/F2/F2-3/demo_test.go /tmp/wt/F2/f2_3_demo_test.go
//   cd /tmp/wt/F2 && go test -vet=off -count=1 -timeout 60s -run 'TestF2_3' -v .
package bpmn

import (
	"context"
	"encoding/xml"
	"fmt"
	"os"
	"os/exec"
	"strings"
	"testing"
	"time"

	"github.com/olive-io/bpmn/schema"
	"github.com/olive-io/bpmn/v2/pkg/tracing"
)

// f23Scenario: one executable process (start -> task -> end) in a process set.
// The task is answered 300 ms after activation so that the set's watcher
// goroutine has certainly subscribed (keeps F2-4 out of the picture).
func f23Scenario(mode string) {
	var defs schema.Definitions
	src, err := os.ReadFile("testdata/task.bpmn")
	if err != nil {
		panic(err)
	}
	if err = xml.Unmarshal(src, &defs); err != nil {
		panic(err)
	}
	ctx := context.Background()
	tr := tracing.NewTracer(ctx)
	traces := tr.SubscribeChannel(make(chan tracing.ITrace, 256))
	go func() {
		for trace := range traces {
			if tt, ok := tracing.Unwrap(trace).(TaskTrace); ok {
				go func() {
					time.Sleep(300 * time.Millisecond)
					tt.Do()
				}()
			}
		}
	}()
	ps, err := NewEngine().NewProcessSet(&defs, WithTracer(tr))
	if err != nil {
		panic(err)
	}
	if err = ps.StartAll(ctx); err != nil {
		panic(err)
	}
	wait := func(name string) {
		wctx, cancel := context.WithTimeout(ctx, 5*time.Second)
		defer cancel()
		fmt.Printf("%s WaitUntilComplete = %v\n", name, ps.WaitUntilComplete(wctx))
	}
	switch mode {
	case "sequential":
		wait("first")
		wait("second")
	case "concurrent":
		done := make(chan struct{})
		go func() { wait("first"); close(done) }()
		wait("second")
		<-done
	}
	time.Sleep(500 * time.Millisecond) // give the helper goroutines time to run
	fmt.Println("SCENARIO FINISHED WITHOUT PANIC")
}

func TestF2_3_Child(t *testing.T) {
	mode := os.Getenv("F2_3_MODE")
	if mode == "" {
		t.Skip("helper, run through TestF2_3_WaitUntilCompleteTwice")
	}
	f23Scenario(mode)
}

func TestF2_3_WaitUntilCompleteTwice(t *testing.T) {
	for _, mode := range []string{"sequential", "concurrent"} {
		ctx, cancel := context.WithTimeout(context.Background(), 20*time.Second)
		cmd := exec.CommandContext(ctx, os.Args[0], "-test.run=^TestF2_3_Child$", "-test.v", "-test.timeout=20s")
		cmd.Env = append(os.Environ(), "F2_3_MODE="+mode)
		out, err := cmd.CombinedOutput()
		cancel()
		s := string(out)
		lines := strings.Split(s, "\n")
		if len(lines) > 25 {
			lines = lines[:25]
		}
		t.Logf("[%s] child err=%v, output (head):\n%s", mode, err, strings.Join(lines, "\n"))
		if strings.Contains(s, "panic: close of closed channel") {
			t.Errorf("[%s] second ProcessSet.WaitUntilComplete crashed the program: panic: close of closed channel", mode)
		} else if !strings.Contains(s, "SCENARIO FINISHED WITHOUT PANIC") {
			t.Errorf("[%s] child did not finish for another reason", mode)
		}
	}
}
