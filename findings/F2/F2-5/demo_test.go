// F2-5 demo: a sub-process never hands the token back to its parent.
// subProcess.NextAction starts sp.ceaseFlowMonitor on the PARENT's tracer
// (sp.wr.tracer), so the inner CeaseFlowTrace is sent on the parent's tracer,
// while the request goroutine in subProcess.run waits for CeaseFlowTrace on
// sp.subTracer.
//
// Target: repository root, package bpmn.
//   cp /tmp/find/F2/F2-5/demo_test.go /tmp/wt/F2/f2_5_demo_test.go
//   cd /tmp/wt/F2 && go test -vet=off -count=1 -timeout 60s -run 'TestF2_5' -v .
package bpmn

import (
	"context"
	"encoding/xml"
	"fmt"
	"os"
	"runtime"
	"strings"
	"sync"
	"testing"
	"time"

	"github.com/olive-io/bpmn/schema"
	"github.com/olive-io/bpmn/v2/pkg/tracing"
)

func f25Run(t *testing.T, file, afterSubProcessNode string, expectedTasks int, mustVisitBefore ...string) {
	var defs schema.Definitions
	src, err := os.ReadFile(file)
	if err != nil {
		t.Fatal(err)
	}
	if err = xml.Unmarshal(src, &defs); err != nil {
		t.Fatal(err)
	}
	ctx := context.Background()
	tr := tracing.NewTracer(ctx)
	traces := tr.SubscribeChannel(make(chan tracing.ITrace, 256))

	var mu sync.Mutex
	var log []string
	visited := map[string]bool{}
	tasks := 0
	ceaseOf := []string{}
	reached := make(chan struct{})
	go func() {
		for trace := range traces {
			trace = tracing.Unwrap(trace)
			mu.Lock()
			switch tt := trace.(type) {
			case VisitTrace:
				id, _ := tt.Node.Id()
				visited[*id] = true
				log = append(log, "Visit "+*id)
				if *id == afterSubProcessNode {
					close(reached)
				}
			case TaskTrace:
				id, _ := tt.GetActivity().Element().Id()
				log = append(log, "Task "+*id+" (answered)")
				tasks++
				tt.Do()
			case CeaseFlowTrace:
				name := fmt.Sprintf("%T", tt.Process)
				if be, ok := tt.Process.(schema.BaseElementInterface); ok {
					if id, present := be.Id(); present {
						name += " " + *id
					}
				}
				ceaseOf = append(ceaseOf, name)
				log = append(log, "CeaseFlow "+name)
			case ProcessLandMarkTrace:
				log = append(log, "ProcessLandMark")
			case ErrorTrace:
				log = append(log, fmt.Sprintf("Error %v", tt.Error))
			}
			mu.Unlock()
		}
	}()

	proc, err := NewEngine().NewProcess(&defs, WithTracer(tr))
	if err != nil {
		t.Fatal(err)
	}
	if err = proc.StartAll(ctx); err != nil {
		t.Fatal(err)
	}

	resumed := false
	select {
	case <-reached:
		resumed = true
	case <-time.After(4 * time.Second):
	}
	wctx, cancel := context.WithTimeout(ctx, 2*time.Second)
	complete := proc.WaitUntilComplete(wctx)
	cancel()

	mu.Lock()
	t.Logf("%s: tasks answered=%d/%d, CeaseFlowTrace for=%v, node after sub-process (%s) visited=%v, WaitUntilComplete=%v\ntrace log: %s",
		file, tasks, expectedTasks, ceaseOf, afterSubProcessNode, resumed, complete, strings.Join(log, " | "))
	mu.Unlock()

	buf := make([]byte, 1<<22)
	buf = buf[:runtime.Stack(buf, true)]
	for _, g := range strings.Split(string(buf), "\n\n") {
		if strings.Contains(g, "(*subProcess).run.func1") {
			t.Logf("sub-process request goroutine still waiting:\n%s", g)
		}
	}
	mu.Lock()
	for _, id := range mustVisitBefore {
		if resumed && !visited[id] {
			t.Errorf("%s: the parent resumed at %s although node %s inside the sub-process was never visited (the nested sub-process's CeaseFlowTrace was mistaken for the enclosing one's)", file, afterSubProcessNode, id)
		}
	}
	mu.Unlock()
	if !resumed || !complete {
		t.Errorf("%s: all inner tasks answered and the sub-process ceased, but the parent token never left the sub-process (visited %s=%v, complete=%v)",
			file, afterSubProcessNode, resumed, complete)
	}
}

func TestF2_5_Subprocess(t *testing.T) {
	f25Run(t, "testdata/subprocess.bpmn", "Event_189f4n4", 1)
}

func TestF2_5_EmbedSubprocess(t *testing.T) {
	// Nested variant: the inner sub-process (Activity_1hqmg4b) publishes its
	// CeaseFlowTrace on the tracer of the enclosing sub-process (Activity_0ihxgya),
	// whose request goroutine takes it for its own completion.  Event_0opn66s is the
	// end event of the enclosing sub-process, reached only if the inner one resumes.
	f25Run(t, "testdata/embed-subprocess.bpmn", "Event_1k7gp8m", 2, "Event_0opn66s")
}
