// F2-2 demo: the helper goroutine of (*Process).WaitUntilComplete keeps the
// completion lock forever when the caller's context expires first.
//
// Target: repository root, package bpmn.
//   cp /tmp/find/F2/F2-2/demo_test.go /tmp/wt/F2/f2_2_demo_test.go
//   cd /tmp/wt/F2 && go test -vet=off -count=1 -timeout 60s -run 'TestF2_2' -v .
package bpmn

import (
	"context"
	"encoding/xml"
	"os"
	"runtime"
	"strings"
	"testing"
	"time"

	"github.com/olive-io/bpmn/schema"
	"github.com/olive-io/bpmn/v2/pkg/tracing"
)

func TestF2_2_WaitUntilCompleteAfterTimedOutWait(t *testing.T) {
	var defs schema.Definitions
	src, err := os.ReadFile("testdata/task.bpmn")
	if err != nil {
		t.Fatal(err)
	}
	if err = xml.Unmarshal(src, &defs); err != nil {
		t.Fatal(err)
	}

	ctx := context.Background()
	tr := tracing.NewTracer(ctx)
	traces := tr.SubscribeChannel(make(chan tracing.ITrace, 256))
	taskCh := make(chan TaskTrace, 1)
	ceased := make(chan struct{})
	go func() {
		for trace := range traces {
			switch tt := tracing.Unwrap(trace).(type) {
			case TaskTrace:
				taskCh <- tt
			case CeaseFlowTrace:
				close(ceased)
			}
		}
	}()

	proc, err := NewEngine().NewProcess(&defs, WithTracer(tr))
	if err != nil {
		t.Fatal(err)
	}
	if err = proc.StartAll(ctx); err != nil {
		t.Fatal(err)
	}

	var task TaskTrace
	select {
	case task = <-taskCh:
	case <-time.After(5 * time.Second):
		t.Fatal("task never activated (unrelated problem)")
	}

	// 1. bounded wait while the task is still unanswered: must be false
	short, cancel := context.WithTimeout(ctx, 100*time.Millisecond)
	first := proc.WaitUntilComplete(short)
	cancel()
	if first {
		t.Fatal("instance reported complete while its task is unanswered")
	}

	// 2. answer the task, the instance runs to its end
	task.Do()
	select {
	case <-ceased:
	case <-time.After(5 * time.Second):
		t.Fatal("no CeaseFlowTrace after answering the task (unrelated problem, e.g. F2-1)")
	}

	// 3. the instance HAS completed (CeaseFlowTrace seen); a fresh, generous wait must return true
	long, cancel2 := context.WithTimeout(ctx, 3*time.Second)
	second := proc.WaitUntilComplete(long)
	cancel2()

	buf := make([]byte, 1<<20)
	buf = buf[:runtime.Stack(buf, true)]
	for _, g := range strings.Split(string(buf), "\n\n") {
		if strings.Contains(g, "WaitUntilComplete.func1") {
			t.Logf("leaked helper goroutine:\n%s", g)
		}
	}
	if !second {
		t.Fatalf("WaitUntilComplete(3s) returned false although the instance completed (CeaseFlowTrace was observed)")
	}
}
