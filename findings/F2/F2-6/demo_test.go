// F2-6 demo: boundary-event listener tokens keep the instance from completing.
// newHarness creates one flow per boundary event on the process's shared flow
// wait group; they are started on the host activity's first activation and have
// no termination function.  If the host task is answered normally and no
// boundary event ever arrives, the listener tokens stay parked at their catch
// events forever, the flow wait group never drains, no CeaseFlowTrace is
// emitted and WaitUntilComplete never returns true.
//
// Target: repository root, package bpmn.
//   cp /tmp/find/F2/F2-6/demo_test.go /tmp/wt/F2/f2_6_demo_test.go
//   cd /tmp/wt/F2 && go test -vet=off -count=1 -timeout 60s -run 'TestF2_6' -v .
package bpmn

import (
	"context"
	"encoding/xml"
	"os"
	"runtime"
	"strings"
	"sync"
	"testing"
	"time"

	"github.com/olive-io/bpmn/schema"
	"github.com/olive-io/bpmn/v2/pkg/tracing"
)

func TestF2_6_BoundaryListenersBlockCompletion(t *testing.T) {
	var defs schema.Definitions
	src, err := os.ReadFile("testdata/boundary_event.bpmn")
	if err != nil {
		t.Fatal(err)
	}
	if err = xml.Unmarshal(src, &defs); err != nil {
		t.Fatal(err)
	}
	ctx := context.Background()
	tr := tracing.NewTracer(ctx)
	traces := tr.SubscribeChannel(make(chan tracing.ITrace, 256))

	var mu sync.Mutex
	var log []string
	endDone := make(chan struct{})
	ceased := make(chan struct{})
	go func() {
		for trace := range traces {
			trace = tracing.Unwrap(trace)
			mu.Lock()
			switch tt := trace.(type) {
			case VisitTrace:
				id, _ := tt.Node.Id()
				log = append(log, "Visit "+*id)
			case ActiveListeningTrace:
				id, _ := tt.Node.Id()
				log = append(log, "Listening "+*id)
			case TaskTrace:
				id, _ := tt.GetActivity().Element().Id()
				log = append(log, "Task "+*id+" answered normally")
				tt.Do()
			case TerminationTrace:
				id, _ := tt.Source.Id()
				log = append(log, "Termination "+*id)
				if *id == "end" {
					close(endDone)
				}
			case CeaseFlowTrace:
				log = append(log, "CeaseFlow")
				close(ceased)
			}
			mu.Unlock()
		}
	}()

	proc, err := NewEngine().NewProcess(&defs, WithTracer(tr))
	if err != nil {
		t.Fatal(err)
	}
	if err = proc.StartAll(ctx); err != nil {
		t.Fatal(err)
	}
	select {
	case <-endDone:
	case <-time.After(5 * time.Second):
		t.Fatal("normal flow never reached the end event (unrelated problem)")
	}

	wctx, cancel := context.WithTimeout(ctx, 3*time.Second)
	complete := proc.WaitUntilComplete(wctx)
	cancel()
	gotCease := false
	select {
	case <-ceased:
		gotCease = true
	default:
	}

	mu.Lock()
	t.Logf("trace log: %s", strings.Join(log, " | "))
	mu.Unlock()

	buf := make([]byte, 1<<22)
	buf = buf[:runtime.Stack(buf, true)]
	parked := 0
	for _, g := range strings.Split(string(buf), "\n\n") {
		if strings.Contains(g, "(*flow).Start.func1") {
			parked++
			t.Logf("token (flow goroutine) still alive:\n%s", g)
		}
	}
	if !complete || !gotCease {
		t.Fatalf("task answered normally, end event completed and terminated, no boundary event delivered: WaitUntilComplete(3s)=%v, CeaseFlowTrace seen=%v, flow goroutines still parked=%d",
			complete, gotCease, parked)
	}
}
