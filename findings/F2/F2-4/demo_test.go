// F2-4 demo: ProcessSet.StartAll starts each process and only afterwards
// launches `go ps.tracerProcess(...)`, which subscribes to the process tracer
// inside the new goroutine.  A process that has already emitted its
// CeaseFlowTrace by then is never seen to cease: ps.wg never drains and
// ProcessSet.WaitUntilComplete never returns true.
//
// Target: repository root, package bpmn.
//   cp /tmp/find/F2/F2-4/demo_test.go /tmp/wt/F2/f2_4_demo_test.go
//   cd /tmp/wt/F2 && go test -vet=off -count=1 -timeout 90s -run 'TestF2_4' -v .
//
// Same set-up as the repository's own TestNewProcessSetStartsDistinctExecutableProcesses
// (two executable start-only processes built with schema.NewProcessBuilder).
// An iteration counts as an F2-4 failure only if BOTH processes' CeaseFlowTrace
// were observed on the set's tracer (so every process did complete and F2-1 is
// excluded) and WaitUntilComplete(2s) still returned false.
package bpmn

import (
	"context"
	"runtime"
	"strings"
	"sync/atomic"
	"testing"
	"time"

	"github.com/olive-io/bpmn/schema"
	"github.com/olive-io/bpmn/v2/pkg/tracing"
)

func f24Once(t *testing.T) (complete bool, ceaseSeen int) {
	definitions := schema.DefaultDefinitions()
	p1 := schema.NewProcessBuilder().Out()
	p1.IdField = schema.NewStringP("process-1")
	p1.IsExecutableField = schema.NewBoolP(true)
	p2 := schema.NewProcessBuilder().Out()
	p2.IdField = schema.NewStringP("process-2")
	p2.IsExecutableField = schema.NewBoolP(true)
	definitions.ProcessField = []schema.Process{*p1, *p2}

	// never cancelled on purpose (cancelled tracers busy-spin until their senders are done)
	ctx := context.Background()
	tr := tracing.NewTracer(ctx)
	traces := tr.SubscribeChannel(make(chan tracing.ITrace, 256))
	var ceases atomic.Int32
	go func() {
		for trace := range traces {
			if _, ok := tracing.Unwrap(trace).(CeaseFlowTrace); ok {
				ceases.Add(1)
			}
		}
	}()

	ps, err := NewEngine().NewProcessSet(&definitions, WithTracer(tr))
	if err != nil {
		t.Fatal(err)
	}
	if err = ps.StartAll(ctx); err != nil {
		t.Fatal(err)
	}
	wctx, cancel := context.WithTimeout(ctx, 2*time.Second)
	defer cancel()
	complete = ps.WaitUntilComplete(wctx)
	return complete, int(ceases.Load())
}

func TestF2_4_ProcessSetWatcherSubscribesAfterStart(t *testing.T) {
	deadline := time.Now().Add(25 * time.Second)
	n, f24, other := 0, 0, 0
	for n < 300 && time.Now().Before(deadline) {
		complete, ceases := f24Once(t)
		n++
		if !complete {
			if ceases == 2 {
				f24++
			} else {
				other++ // some process never emitted CeaseFlowTrace: F2-1, not counted
			}
		}
	}
	buf := make([]byte, 64<<20)
	buf = buf[:runtime.Stack(buf, true)]
	stuck := 0
	for _, g := range strings.Split(string(buf), "\n\n") {
		if strings.Contains(g, "(*ProcessSet).tracerProcess") && strings.Contains(g, "[select") {
			stuck++
		}
	}
	t.Logf("iterations=%d  F2-4 failures (both processes ceased, set never complete)=%d  other failures=%d  tracerProcess goroutines still waiting=%d", n, f24, other, stuck)
	if f24 > 0 {
		t.Fatalf("%d/%d process sets never reported completion although both processes emitted CeaseFlowTrace", f24, n)
	}
}
