// F2-8 demo: in subProcess.run's request goroutine sp.startAll(ctx) is called
// BEFORE sp.subTracer.Subscribe(); inner traces emitted before the subscription
// exists are not forwarded to the parent's tracer (and therefore also not seen
// by the sub-process's own cease-flow monitor, which listens on the parent's
// tracer for the inner start events' FlowTrace).
//
// Target: repository root, package bpmn.
//
//	cp /tmp/find/F2/F2-8/demo_test.go /tmp/wt/F2/f2_8_demo_test.go
//	cd /tmp/wt/F2 && go test -vet=off -count=1 -timeout 120s -run 'TestF2_8' -v .
//
// TestF2_8_ManyInnerStartEvents: a generated sub-process with 64 inner start
//
//	events (start_i -> end_i).  startAll triggers them one after the other and
//	subscribes only afterwards, so the traces of the first ones are lost with
//	high probability.  Every iteration checks that the parent's trace stream
//	contains VisitTrace + FlowTrace for every inner start event.
//
// TestF2_8_StockFixture: testdata/subprocess.bpmn (one inner start event) under
//
//	GC pressure, many iterations; checks that NewFlowTrace / VisitTrace /
//	FlowTrace of the inner start event reach the parent's trace stream.
package bpmn

import (
	"context"
	"encoding/xml"
	"fmt"
	"os"
	"runtime"
	"runtime/debug"
	"strings"
	"sync"
	"sync/atomic"
	"testing"
	"time"

	"github.com/olive-io/bpmn/schema"
	"github.com/olive-io/bpmn/v2/pkg/tracing"
)

type f28Result struct {
	newFlows   int
	visited    map[string]bool
	flowedFrom map[string]bool
	innerTask  bool
	subCeased  bool
	order      []string
}

// f28Run starts one instance and collects the parent's trace stream until
// `until` says stop or the stream has been idle for `idle`.
func f28Run(t testing.TB, defs *schema.Definitions, idle time.Duration, until func(r *f28Result) bool) *f28Result {
	ctx := context.Background() // never cancelled (cancelled tracers busy-spin)
	tr := tracing.NewTracer(ctx)
	traces := tr.SubscribeChannel(make(chan tracing.ITrace, 1024))
	r := &f28Result{visited: map[string]bool{}, flowedFrom: map[string]bool{}}
	proc, err := NewEngine().NewProcess(defs, WithTracer(tr))
	if err != nil {
		t.Fatal(err)
	}
	if err = proc.StartAll(ctx); err != nil {
		t.Fatal(err)
	}
	timer := time.NewTimer(idle)
	defer func() {
		// keep draining so the instance's tracers never block
		go func() {
			for range traces {
			}
		}()
	}()
	for {
		select {
		case trace := <-traces:
			if !timer.Stop() {
				select {
				case <-timer.C:
				default:
				}
			}
			timer.Reset(idle)
			switch tt := tracing.Unwrap(trace).(type) {
			case NewFlowTrace:
				r.newFlows++
				r.order = append(r.order, "NewFlow")
			case VisitTrace:
				id, _ := tt.Node.Id()
				r.visited[*id] = true
				r.order = append(r.order, "Visit "+*id)
			case FlowTrace:
				id, _ := tt.Source.Id()
				r.flowedFrom[*id] = true
				r.order = append(r.order, "Flow "+*id)
			case TaskTrace:
				r.innerTask = true
				r.order = append(r.order, "Task")
			case CeaseFlowTrace:
				if _, ok := tt.Process.(*schema.SubProcess); ok {
					r.subCeased = true
				}
			}
			if until != nil && until(r) {
				return r
			}
		case <-timer.C:
			return r
		}
	}
}

func TestF2_8_ManyInnerStartEvents(t *testing.T) {
	const k = 64
	var sb strings.Builder
	sb.WriteString(`<?xml version="1.0" encoding="UTF-8"?>
<bpmn:definitions xmlns:bpmn="http://www.omg.org/spec/BPMN/20100524/MODEL" id="defs" targetNamespace="http://bpmn.io/schema/bpmn">
  <bpmn:process id="proc" isExecutable="true">
    <bpmn:startEvent id="pstart"><bpmn:outgoing>pf1</bpmn:outgoing></bpmn:startEvent>
    <bpmn:sequenceFlow id="pf1" sourceRef="pstart" targetRef="sub" />
    <bpmn:subProcess id="sub">
      <bpmn:incoming>pf1</bpmn:incoming>
      <bpmn:outgoing>pf2</bpmn:outgoing>
`)
	for i := 0; i < k; i++ {
		fmt.Fprintf(&sb, `      <bpmn:startEvent id="s%d"><bpmn:outgoing>f%d</bpmn:outgoing></bpmn:startEvent>
      <bpmn:endEvent id="e%d"><bpmn:incoming>f%d</bpmn:incoming></bpmn:endEvent>
      <bpmn:sequenceFlow id="f%d" sourceRef="s%d" targetRef="e%d" />
`, i, i, i, i, i, i, i)
	}
	sb.WriteString(`    </bpmn:subProcess>
    <bpmn:sequenceFlow id="pf2" sourceRef="sub" targetRef="pend" />
    <bpmn:endEvent id="pend"><bpmn:incoming>pf2</bpmn:incoming></bpmn:endEvent>
  </bpmn:process>
</bpmn:definitions>`)
	var defs schema.Definitions
	if err := xml.Unmarshal([]byte(sb.String()), &defs); err != nil {
		t.Fatal(err)
	}

	const iterations = 20
	bad := 0
	for it := 0; it < iterations; it++ {
		r := f28Run(t, &defs, 500*time.Millisecond, nil)
		if !r.visited["sub"] {
			t.Fatalf("sub-process never visited (unrelated problem)")
		}
		var missingVisit, missingFlow []string
		for i := 0; i < k; i++ {
			id := fmt.Sprintf("s%d", i)
			if !r.visited[id] {
				missingVisit = append(missingVisit, id)
			}
			if !r.flowedFrom[id] {
				missingFlow = append(missingFlow, id)
			}
		}
		if len(missingVisit) > 0 || len(missingFlow) > 0 {
			bad++
			t.Logf("iteration %d: parent stream lacks VisitTrace for %d/%d inner start events %v, FlowTrace for %d/%d %v; NewFlowTrace count=%d (expected %d); sub-process CeaseFlowTrace seen=%v",
				it, len(missingVisit), k, missingVisit, len(missingFlow), k, missingFlow, r.newFlows, k+1, r.subCeased)
		}
	}
	if bad > 0 {
		t.Fatalf("%d/%d iterations lost inner traces that were emitted before subProcess.run subscribed", bad, iterations)
	}
}

func TestF2_8_StockFixture(t *testing.T) {
	var defs schema.Definitions
	src, err := os.ReadFile("testdata/subprocess.bpmn")
	if err != nil {
		t.Fatal(err)
	}
	if err = xml.Unmarshal(src, &defs); err != nil {
		t.Fatal(err)
	}
	// GC pressure: mark assists delay the goroutine between startAll and Subscribe
	defer debug.SetGCPercent(debug.SetGCPercent(1))
	type node struct {
		next *node
		pad  [6]uintptr
	}
	var ballast *node
	for i := 0; i < 2_000_000; i++ {
		ballast = &node{next: ballast}
	}
	stop := make(chan struct{})
	defer close(stop)
	var sink atomic.Pointer[[]byte]
	for i := 0; i < 4; i++ {
		go func() {
			for {
				select {
				case <-stop:
					return
				default:
					b := make([]byte, 64<<10)
					sink.Store(&b)
				}
			}
		}()
	}

	deadline := time.Now().Add(20 * time.Second)
	var total, bad, ambiguous atomic.Int64
	var wg sync.WaitGroup
	for w := 0; w < 4; w++ {
		wg.Add(1)
		go func() {
			defer wg.Done()
			for time.Now().Before(deadline) && bad.Load() < 3 {
				r := f28Run(t, &defs, 1500*time.Millisecond, func(r *f28Result) bool { return r.innerTask })
				total.Add(1)
				if !r.visited["Activity_0lymyt1"] {
					continue // never got into the sub-process: not this defect
				}
				if !r.innerTask {
					// no TaskTrace within the idle timeout: either everything up to and
					// including the TaskTrace was lost or the box stalled; ambiguous, not counted
					ambiguous.Add(1)
					continue
				}
				// the inner TaskTrace arrived, so the sub-process ran; the inner traces that
				// precede it must be in the parent's stream as well:
				// NewFlow, Visit Event_0dna7s8, Visit Activity_1wc52rj, Flow Event_0dna7s8, Task
				if r.newFlows < 2 || !r.visited["Event_0dna7s8"] || !r.flowedFrom["Event_0dna7s8"] || !r.visited["Activity_1wc52rj"] {
					bad.Add(1)
					t.Logf("iteration %d: inner traces missing from the parent's stream: NewFlowTrace count=%d (want 2), Visit inner start=%v, Flow from inner start=%v, Visit inner task=%v, TaskTrace=%v; stream: %s",
						total.Load(), r.newFlows, r.visited["Event_0dna7s8"], r.flowedFrom["Event_0dna7s8"], r.visited["Activity_1wc52rj"], r.innerTask, strings.Join(r.order, " | "))
				}
			}
		}()
	}
	wg.Wait()
	runtime.KeepAlive(ballast)
	t.Logf("%d/%d iterations lost inner traces (%d more without any inner TaskTrace, ambiguous, not counted)", bad.Load(), total.Load(), ambiguous.Load())
	if bad.Load() > 0 {
		t.Errorf("%d/%d iterations lost inner traces (stock fixture)", bad.Load(), total.Load())
	}
}
