package bpmn_test

import (
	"context"
	"encoding/xml"
	"strings"
	"testing"
	"time"

	"github.com/olive-io/bpmn/schema"
	"github.com/olive-io/bpmn/v2"
	"github.com/olive-io/bpmn/v2/pkg/tracing"
)

// F18 (property C05: "An inclusive join releases exactly one token per fork activation: no earlier than when every
// activated branch that leads to it has delivered its token"):
//
//	start -> g1 (inclusive fork) -+-> p1 (parallel fork) -> a -+-> p2 (parallel join) -> g2 (inclusive join) -> d -> end
//	                              |                      -> b -+
//	                              +-> c ------------------------------------------------^
//
// Both branches of g1 are taken. a and b are answered first, c last: the token that leaves the parallel block arrives
// at g2 while the token of branch c is still running, and the join has to wait for it. The flow tracker recorded the
// tokens forked by p1 under p1, not under g1: the token that arrives from p2 is alone in its cohort, the join fires at
// once — and again when c's token arrives: d is requested twice.
const f18Doc = `<?xml version="1.0" encoding="UTF-8"?>
<bpmn:definitions xmlns:bpmn="http://www.omg.org/spec/BPMN/20100524/MODEL" xmlns:xsi="http://www.w3.org/2001/XMLSchema-instance" id="Definitions_f18" targetNamespace="http://bpmn.io/schema/bpmn" expressionLanguage="https://github.com/expr-lang/expr">
  <bpmn:process id="f18" isExecutable="true">
    <bpmn:startEvent id="start"><bpmn:outgoing>s1</bpmn:outgoing></bpmn:startEvent>
    <bpmn:inclusiveGateway id="g1"><bpmn:incoming>s1</bpmn:incoming><bpmn:outgoing>x1</bpmn:outgoing><bpmn:outgoing>x2</bpmn:outgoing></bpmn:inclusiveGateway>
    <bpmn:parallelGateway id="p1"><bpmn:incoming>x1</bpmn:incoming><bpmn:outgoing>y1</bpmn:outgoing><bpmn:outgoing>y2</bpmn:outgoing></bpmn:parallelGateway>
    <bpmn:task id="a"><bpmn:incoming>y1</bpmn:incoming><bpmn:outgoing>z1</bpmn:outgoing></bpmn:task>
    <bpmn:task id="b"><bpmn:incoming>y2</bpmn:incoming><bpmn:outgoing>z2</bpmn:outgoing></bpmn:task>
    <bpmn:parallelGateway id="p2"><bpmn:incoming>z1</bpmn:incoming><bpmn:incoming>z2</bpmn:incoming><bpmn:outgoing>w1</bpmn:outgoing></bpmn:parallelGateway>
    <bpmn:task id="c"><bpmn:incoming>x2</bpmn:incoming><bpmn:outgoing>w2</bpmn:outgoing></bpmn:task>
    <bpmn:inclusiveGateway id="g2"><bpmn:incoming>w1</bpmn:incoming><bpmn:incoming>w2</bpmn:incoming><bpmn:outgoing>v1</bpmn:outgoing></bpmn:inclusiveGateway>
    <bpmn:task id="d"><bpmn:incoming>v1</bpmn:incoming><bpmn:outgoing>v2</bpmn:outgoing></bpmn:task>
    <bpmn:endEvent id="end"><bpmn:incoming>v2</bpmn:incoming></bpmn:endEvent>
    <bpmn:sequenceFlow id="s1" sourceRef="start" targetRef="g1"/>
    <bpmn:sequenceFlow id="x1" sourceRef="g1" targetRef="p1"><bpmn:conditionExpression xsi:type="bpmn:tFormalExpression">true</bpmn:conditionExpression></bpmn:sequenceFlow>
    <bpmn:sequenceFlow id="x2" sourceRef="g1" targetRef="c"><bpmn:conditionExpression xsi:type="bpmn:tFormalExpression">true</bpmn:conditionExpression></bpmn:sequenceFlow>
    <bpmn:sequenceFlow id="y1" sourceRef="p1" targetRef="a"/>
    <bpmn:sequenceFlow id="y2" sourceRef="p1" targetRef="b"/>
    <bpmn:sequenceFlow id="z1" sourceRef="a" targetRef="p2"/>
    <bpmn:sequenceFlow id="z2" sourceRef="b" targetRef="p2"/>
    <bpmn:sequenceFlow id="w1" sourceRef="p2" targetRef="g2"/>
    <bpmn:sequenceFlow id="w2" sourceRef="c" targetRef="g2"/>
    <bpmn:sequenceFlow id="v1" sourceRef="g2" targetRef="d"/>
    <bpmn:sequenceFlow id="v2" sourceRef="d" targetRef="end"/>
  </bpmn:process>
</bpmn:definitions>`

func TestF18InclusiveJoinWaitsForParallelBlockOnABranch(t *testing.T) {
	var defs schema.Definitions
	if err := xml.Unmarshal([]byte(f18Doc), &defs); err != nil {
		t.Fatal(err)
	}
	ctx, cancel := context.WithCancel(context.Background())
	defer cancel()
	ins, err := bpmn.NewEngine().NewProcess(&defs)
	if err != nil {
		t.Fatal(err)
	}
	traces := ins.Tracer().SubscribeChannel(make(chan tracing.ITrace, 512))
	if err = ins.StartAll(ctx); err != nil {
		t.Fatal(err)
	}
	pending := map[string]bpmn.TaskTrace{}
	var requested []string
	pump := func(d time.Duration, until func() bool) {
		deadline := time.After(d)
		for !until() {
			select {
			case tr := <-traces:
				switch tt := tracing.Unwrap(tr).(type) {
				case bpmn.TaskTrace:
					id, _ := tt.GetActivity().Element().Id()
					requested = append(requested, *id)
					if *id == "d" {
						tt.Do()
					} else {
						pending[*id] = tt
					}
				case bpmn.ErrorTrace:
					t.Errorf("error trace: %v", tt.Error)
				}
			case <-deadline:
				return
			}
		}
	}
	pump(5*time.Second, func() bool { return len(pending) == 3 })
	if len(pending) != 3 {
		t.Fatalf("a, b and c were not all requested: %v", requested)
	}
	// the parallel block finishes first: its token reaches g2 while branch c is still running
	pending["a"].Do()
	pending["b"].Do()
	pump(1500*time.Millisecond, func() bool { return false })
	early := strings.Count(strings.Join(requested, ","), "d")
	pending["c"].Do()
	pump(3*time.Second, func() bool { return false })
	total := strings.Count(strings.Join(requested, ","), "d")
	if early != 0 || total != 1 {
		t.Fatalf("d requested %d time(s) while c was still pending and %d time(s) in all, want 0 and 1 (requests: %v)", early, total, requested)
	}
}
