package bpmn

import (
	"context"
	"encoding/xml"
	"testing"
	"time"

	"github.com/olive-io/bpmn/schema"
	"github.com/olive-io/bpmn/v2/pkg/tracing"
)

// F19 (property C07: "Nothing keeps spinning or stays blocked, whichever node each token was at"): four tokens leave
// the task `work` over its single outgoing flow towards the end event, whose mailbox has room for 2*1+1 = 3 requests.
// The instance is cancelled while they are on their way. The end event's loop may leave on the cancellation before it
// has served them; the token's request is posted by a plain send inside NextAction (evaluated in the header of the
// token's select, before the select can see the cancellation): the fourth token blocks in that send for ever, keeps
// its sender handle, and the tracers never terminate.
// A multi-merge: both branches of the fork run into the same task ("work"),
// which is therefore executed twice, and both tokens leave it over the single
// flow into the end event.
const f19Diagram = `<?xml version="1.0" encoding="UTF-8"?>
<bpmn:definitions xmlns:bpmn="http://www.omg.org/spec/BPMN/20100524/MODEL" id="f19" targetNamespace="http://bpmn.io/schema/bpmn">
  <bpmn:process id="f19Process" isExecutable="true">
    <bpmn:startEvent id="start"><bpmn:outgoing>f0</bpmn:outgoing></bpmn:startEvent>
    <bpmn:parallelGateway id="fork">
      <bpmn:incoming>f0</bpmn:incoming>
      <bpmn:outgoing>f1</bpmn:outgoing>
      <bpmn:outgoing>f2</bpmn:outgoing>
      <bpmn:outgoing>g1</bpmn:outgoing>
      <bpmn:outgoing>g2</bpmn:outgoing>
    </bpmn:parallelGateway>
    <bpmn:task id="c"><bpmn:incoming>g1</bpmn:incoming><bpmn:outgoing>g3</bpmn:outgoing></bpmn:task>
    <bpmn:task id="d"><bpmn:incoming>g2</bpmn:incoming><bpmn:outgoing>g4</bpmn:outgoing></bpmn:task>
    <bpmn:task id="a"><bpmn:incoming>f1</bpmn:incoming><bpmn:outgoing>f3</bpmn:outgoing></bpmn:task>
    <bpmn:task id="b"><bpmn:incoming>f2</bpmn:incoming><bpmn:outgoing>f4</bpmn:outgoing></bpmn:task>
    <bpmn:task id="work">
      <bpmn:incoming>f3</bpmn:incoming>
      <bpmn:incoming>f4</bpmn:incoming>
      <bpmn:incoming>g3</bpmn:incoming>
      <bpmn:incoming>g4</bpmn:incoming>
      <bpmn:outgoing>f5</bpmn:outgoing>
    </bpmn:task>
    <bpmn:endEvent id="end"><bpmn:incoming>f5</bpmn:incoming></bpmn:endEvent>
    <bpmn:sequenceFlow id="f0" sourceRef="start" targetRef="fork" />
    <bpmn:sequenceFlow id="f1" sourceRef="fork" targetRef="a" />
    <bpmn:sequenceFlow id="f2" sourceRef="fork" targetRef="b" />
    <bpmn:sequenceFlow id="f3" sourceRef="a" targetRef="work" />
    <bpmn:sequenceFlow id="f4" sourceRef="b" targetRef="work" />
    <bpmn:sequenceFlow id="f5" sourceRef="work" targetRef="end" />
    <bpmn:sequenceFlow id="g1" sourceRef="fork" targetRef="c" />
    <bpmn:sequenceFlow id="g2" sourceRef="fork" targetRef="d" />
    <bpmn:sequenceFlow id="g3" sourceRef="c" targetRef="work" />
    <bpmn:sequenceFlow id="g4" sourceRef="d" targetRef="work" />
  </bpmn:process>
</bpmn:definitions>`

// TestF19CancelWhileTwoTokensHeadForTheEndEvent cancels the instance while two
// tokens that have just been released by the same task are on their way to the
// end event (they are held, by back-pressure of an unbuffered trace
// subscription, between the task's answer and their arrival). Whatever the end
// event does with them, the instance has to wind down: every token leaves, the
// tracers terminate and close the subscription.
func TestF19CancelWhileTwoTokensHeadForTheEndEvent(t *testing.T) {
	var defs schema.Definitions
	if err := xml.Unmarshal([]byte(f19Diagram), &defs); err != nil {
		t.Fatalf("unmarshal: %v", err)
	}
	const trials = 24
	for trial := 0; trial < trials; trial++ {
		if reason := f19Trial(t, &defs); reason != "" {
			t.Fatalf("trial %d: instance did not wind down after cancellation: %s", trial, reason)
		}
	}
}

func f19Trial(t *testing.T, defs *schema.Definitions) (leak string) {
	ctx, cancel := context.WithCancel(context.Background())
	defer cancel()

	tracer := tracing.NewTracer(ctx)
	element := &(*defs.Processes())[0]
	proc, err := NewProcess(element, defs, WithContext(ctx), WithTracer(tracer))
	if err != nil {
		t.Fatalf("new process: %v", err)
	}

	// unbuffered: while the test does not read, the tracer cannot accept more
	// than one further trace, i.e. every goroutine stops at its next Send
	sub := proc.subTracer.SubscribeChannel(make(chan tracing.ITrace))

	if err = proc.StartAll(ctx); err != nil {
		t.Fatalf("start: %v", err)
	}

	held := make([]TaskTrace, 0, 4)
	timeout := time.After(30 * time.Second)
	for len(held) < 4 {
		select {
		case trace := <-sub:
			switch tt := tracing.Unwrap(trace).(type) {
			case TaskTrace:
				id, _ := tt.GetActivity().Element().Id()
				if *id == "work" {
					held = append(held, tt)
				} else {
					tt.Do()
				}
			case ErrorTrace:
				t.Fatalf("unexpected error trace: %v", tt.Error)
			}
		case <-timeout:
			t.Fatalf("the four activations of `work` were not requested in time")
		}
	}

	// from here on the test does not read traces: the two tokens get their
	// answers and stop at one of the Sends between leaving `work` and arriving
	// at `end`
	for _, tt := range held {
		tt.Do()
	}
	time.Sleep(400 * time.Millisecond)

	cancel()

	deadline := time.After(8 * time.Second)
drain:
	for {
		select {
		case _, ok := <-sub:
			if !ok {
				break drain
			}
		case <-deadline:
			return "the process tracer never closed its subscriber channel (a sender is still registered)"
		}
	}
	select {
	case <-proc.subTracer.Done():
	case <-time.After(5 * time.Second):
		return "process tracer not done"
	}
	select {
	case <-tracer.Done():
	case <-time.After(5 * time.Second):
		return "instance tracer not done"
	}
	waited := make(chan struct{})
	go func() {
		proc.flowWaitGroup.Wait()
		close(waited)
	}()
	select {
	case <-waited:
	case <-time.After(5 * time.Second):
		return "a token is still alive"
	}
	return ""
}
