package data

// F11: channelIteratorStopper.Stop sends on the stopper channel that the iterator goroutine CLOSES
// when it ends (items exhausted or context done). The documented use is "call Stop if the iterator
// was not exhausted" — but a consumer cannot know that the item it just took was the last one: it
// stops after finding what it was looking for, the goroutine has meanwhile closed the channel, and
// Stop panics with "send on closed channel". Likewise Stop after the context was cancelled.
//
// Run from /repo:  go test -vet=off -count=1 -run TestF11 ./pkg/data
// Before the fix: both sub-tests report the panic. After: pass.

import (
	"context"
	"testing"
	"time"

	"github.com/olive-io/bpmn/schema"
)

func f11stop(t *testing.T, stop IIteratorStopper) {
	t.Helper()
	done := make(chan any, 1)
	go func() {
		defer func() { done <- recover() }()
		stop.Stop()
	}()
	select {
	case r := <-done:
		if r != nil {
			t.Fatalf("Stop panicked: %v", r)
		}
	case <-time.After(5 * time.Second):
		t.Fatalf("Stop did not return")
	}
}

func TestF11StopAfterTakingTheLastItem(t *testing.T) {
	s := NewSlice([]IItem{schema.NewValue(1), schema.NewValue(2)})
	items, stop := s.ItemIterator(context.Background())
	<-items
	v := <-items // found what we were looking for; it happens to be the last item
	_ = v
	time.Sleep(50 * time.Millisecond) // the iterator goroutine finishes
	f11stop(t, stop)
}

func TestF11StopAfterCancellation(t *testing.T) {
	ctx, cancel := context.WithCancel(context.Background())
	s := NewSlice([]IItem{schema.NewValue(1), schema.NewValue(2), schema.NewValue(3)})
	items, stop := s.ItemIterator(ctx)
	<-items
	cancel()
	time.Sleep(50 * time.Millisecond)
	f11stop(t, stop)
}
